//! C07 -- Euler angles mean intrinsic X-Y-Z everywhere and round-trip via quaternions.
use crate::util::*;
use crate::*;
use cgmath::*;

#[inline(always)] fn unitq(q: Quaternion<R>) { vassume_eq(qnorm2(q), R(1.0)); }

macro_rules! build { ($reg:ident, $A:ident; $fm:ident, $fq:ident, $fqm:ident) => {
harnesses! { $reg;
// Matrix3 / Matrix4 / Basis3 from Euler{x,y,z} = Rx(x) Ry(y) Rz(z)
fn $fm(x: R, y: R, z: R) {
    let e = Euler::new($A(x), $A(y), $A(z));
    let want = Matrix3::from_angle_x($A(x)) * Matrix3::from_angle_y($A(y)) * Matrix3::from_angle_z($A(z));
    vassert_eq("Matrix3::from(Euler) = Rx Ry Rz", Matrix3::from(e), want);
    vassert_eq("Matrix4::from(Euler) = embed", Matrix4::from(e), Matrix4::from(want));
    vassert_eq("Matrix4 = Rx Ry Rz (4x4)", Matrix4::from(e), Matrix4::from_angle_x($A(x)) * Matrix4::from_angle_y($A(y)) * Matrix4::from_angle_z($A(z)));
    vassert_eq("Basis3::from(Euler)", Matrix3::from(Basis3::from(e)), want);
    // and composed in the Basis3 type itself (its own Mul and from_angle_* constructors)
    let (bx, by, bz): (Basis3<R>, Basis3<R>, Basis3<R>) = (Rotation3::from_angle_x($A(x)), Rotation3::from_angle_y($A(y)), Rotation3::from_angle_z($A(z)));
    vassert_eq("Basis3: Rx Ry Rz", Matrix3::from(bx * by * bz), want);
    vcover("end");
}
// Quaternion from Euler = qx qy qz of the half-angle axis quaternions
fn $fq(x: R, y: R, z: R) {
    let e = Euler::new($A(x), $A(y), $A(z));
    let (qx, qy, qz): (Quaternion<R>, Quaternion<R>, Quaternion<R>) = (Rotation3::from_angle_x($A(x)), Rotation3::from_angle_y($A(y)), Rotation3::from_angle_z($A(z)));
    vassert_eq("Quaternion::from(Euler) = qx qy qz", Quaternion::from(e), qx * qy * qz);
    vassert_eq("unit", qnorm2(Quaternion::from(e)), R(1.0));
    vcover("end");
}
// ... and it is the same rotation as the matrix
fn $fqm(x: R, y: R, z: R) {
    let e = Euler::new($A(x), $A(y), $A(z));
    vassert_eq("Matrix3::from(Quaternion::from(Euler)) = Matrix3::from(Euler)", Matrix3::from(Quaternion::from(e)), Matrix3::from(e));
    vcover("end");
}
}
}}
pub mod rad { use super::*; build!(reg, Rad; c07_rad_matrix, c07_rad_quat, c07_rad_quat_matrix); }
pub mod deg { use super::*; build!(reg, Deg; c07_deg_matrix, c07_deg_quat, c07_deg_quat_matrix); }

harnesses! { reg0;
// ---- scalar lemma functions for the rebuild argument
fn c07_lemma_sqrt_sq(n: R, c: R) {
    vassume(n >= R(0.0)); vassume_eq(n * n, c * c); vassume(c > R(0.0));
    vassert_eq("n = c", n, c);
    vcover("end");
}
fn c07_lemma_mixed(cy: R, sx: R, cx: R, sy: R, sz: R, cz: R, yx: R, xx: R, yz: R, xz: R, u: R) {
    vassume_eq(sy, u); vassume_eq(cy * sx, yx); vassume_eq(cy * cx, xx); vassume_eq(cy * sz, yz); vassume_eq(cy * cz, xz);
    let k = cy * cy;
    vassert_eq("m01 cy^2", (cx * sz + sx * sy * cz) * k, xx * yz + yx * u * xz);
    vassert_eq("m02 cy^2", (sx * sz - cx * sy * cz) * k, yx * yz - xx * u * xz);
    vassert_eq("m11 cy^2", (cx * cz - sx * sy * sz) * k, xx * xz - yx * u * yz);
    vassert_eq("m12 cy^2", (sx * cz + cx * sy * sz) * k, yx * xz + xx * u * yz);
    vcover("end");
}
fn c07_lemma_cancel(a: R, b: R, k: R) {
    vassume(k > R(0.0)); vassume_eq(a * k, b * k);
    vassert_eq("a = b", a, b);
    vcover("end");
}
// extraction: path structure, documented ranges, gimbal-lock reporting
fn c07_extract_ranges(q: Quaternion<R>) {
    unitq(q);
    let e: Euler<Rad<R>> = q.into();
    let test = q.v.x * q.v.z + q.v.y * q.s;
    let pi = R(std::f64::consts::PI); let hp = (R(std::f64::consts::PI) / R(2.0));
    if test > R(0.499) {
        vcover("gimbal +");
        vassert_eq("x reported as 0", e.x.0, R(0.0));
        vassert_eq("y = +pi/2", e.y.0, hp);
    } else if test < R(-0.499) {
        vcover("gimbal -");
        vassert_eq("x reported as 0", e.x.0, R(0.0));
        vassert_eq("y = -pi/2", e.y.0, -hp);
    } else {
        vcover("regular");
        vlemma_eq("|q|^2 in the code's order", q.v.x * q.v.x + q.v.z * q.v.z + q.v.y * q.v.y + q.s * q.s, R(1.0));
        vassert("x in [-pi,pi]", (e.x.0 >= -pi) & (e.x.0 <= pi));
        vassert("y in [-pi/2,pi/2]", (e.y.0 >= -hp) & (e.y.0 <= hp));
        vassert("z in [-pi,pi]", (e.z.0 >= -pi) & (e.z.0 <= pi));
        vassert_eq("sin y = 2 (qx qz + qy qw)", Rad::sin(e.y), R(2.0) * test);
    }
    vcover("end");
}
// ---- inside the gimbal-lock cone: the five entries of the rebuilt matrix that do not involve z are within 0.13
// (in fact within 0.064) of q's matrix.  The four entries with sin z / cos z are outside the claim (DESIGN C07).
fn c07_lemma_small(a: R, b: R, c: R) {
    // (a, b, c) a unit vector with |c| >= 0.998  =>  |a|, |b| <= 0.13
    vassume_eq(a * a + b * b + c * c, R(1.0)); vassume((c >= R(0.998)) | (c <= R(-0.998)));
    vassert("|a| <= 0.13", (a <= R(0.13)) & (a >= R(-0.13)));
    vassert("|b| <= 0.13", (b <= R(0.13)) & (b >= R(-0.13)));
    vassert("|c| <= 1", (c <= R(1.0)) & (c >= R(-1.0)));
    vcover("end");
}
// ---- at the exact pole (qz = +-qx, qy = +-qw, i.e. qx qz + qy qw = +-1/2) the decomposition x = 0, y = +-pi/2,
// z = +-2 atan2(qx, qw) is exact, so there all nine entries -- the four that involve z included -- are within 0.13.
// (Only a necessary condition for the cone clause, but it is the one that pins the sign and the branch of z.)
fn c07_lemma_pole(s: R, c: R, r: R, qx: R, qw: R) {
    vassume_eq(r * s, qx); vassume_eq(r * c, qw); vassume_eq(r * r, R(0.5));
    vassert_eq("2 s c = 4 qx qw", R(2.0) * s * c, R(4.0) * qx * qw);
    vassert_eq("c^2 - s^2 = 2 (qw^2 - qx^2)", c * c - s * s, R(2.0) * (qw * qw - qx * qx));
    vcover("end");
}
fn c07_gimbal_pole(qx: R, qw: R, plus: bool) {
    vassume_eq(R(2.0) * (qx * qx + qw * qw), R(1.0));
    let q = if plus { vcover("pole +"); Quaternion::new(qw, qx, qw, qx) } else { vcover("pole -"); Quaternion::new(qw, qx, -qw, -qx) };
    let e: Euler<Rad<R>> = q.into();
    let m = a3(Matrix3::from(e)); let w = a3(Matrix3::from(q));
    // proof script: theta = atan2(qx, qw) has r sin = qx, r cos = qw with r^2 = 1/2; z = +-2 theta
    let th = Rad::atan2(qx, qw); let (s, c) = (Rad::sin(th), Rad::cos(th)); let r = (qx * qx + qw * qw).sqrt();
    vlemma_eq("r^2 = 1/2", r * r, R(0.5));
    vlemma_eq("r sin = qx, r cos = qw", [r * s, r * c], [qx, qw]);
    c07_lemma_pole(s, c, r, qx, qw);
    let z2 = th * R(2.0);
    vlemma_eq("sin 2 theta, cos 2 theta", [Rad::sin(z2), Rad::cos(z2)], [R(2.0) * s * c, c * c - s * s]);
    let sg = if plus { R(1.0) } else { R(-1.0) };
    vlemma_eq("x = 0, y = +-pi/2", [Rad::sin(e.x), Rad::cos(e.x), Rad::sin(e.y), Rad::cos(e.y)], [R(0.0), R(1.0), sg, R(0.0)]);
    vlemma_eq("sin z, cos z", [Rad::sin(e.z), Rad::cos(e.z)], [sg * R(2.0) * s * c, c * c - s * s]);
    let mut col = 0; while col < 3 { let mut row = 0; while row < 3 {
        let d = m[col][row] - w[col][row];
        vassert("rebuilt within 0.13 at the pole", (d <= R(0.13)) & (d >= R(-0.13)));
        row += 1; } col += 1; }
    vcover("end");
}
fn c07_gimbal_partial(q: Quaternion<R>) {
    unitq(q);
    let test = q.v.x * q.v.z + q.v.y * q.s;
    vassume((test > R(0.499)) | (test < R(-0.499)));
    vlemma_eq("|q|^2 in the code's order", q.v.x * q.v.x + q.v.z * q.v.z + q.v.y * q.v.y + q.s * q.s, R(1.0));
    let e: Euler<Rad<R>> = q.into();
    if test > R(0.499) { vcover("gimbal +"); } else { vcover("gimbal -"); }
    let m = a3(Matrix3::from(e)); let w = a3(Matrix3::from(q));
    vlemma_eq("w20 = 2 test", w[2][0], R(2.0) * test);
    vlemma("|w20| >= 0.998", (w[2][0] >= R(0.998)) | (w[2][0] <= R(-0.998)));
    vlemma_eq("column 2 of M(q) is a unit vector", w[2][1] * w[2][1] + w[2][2] * w[2][2] + w[2][0] * w[2][0], R(1.0));
    c07_lemma_small(w[2][1], w[2][2], w[2][0]);
    vlemma_eq("row 0 of M(q) is a unit vector", w[0][0] * w[0][0] + w[1][0] * w[1][0] + w[2][0] * w[2][0], R(1.0));
    c07_lemma_small(w[0][0], w[1][0], w[2][0]);
    vlemma("|w20| <= 1", (w[2][0] <= R(1.0)) & (w[2][0] >= R(-1.0)));
    // rebuilt entries that do not depend on z: m00 = m10 = m21 = m22 = 0, m20 = +-1
    vlemma_eq("rebuilt m00", m[0][0], R(0.0)); vlemma_eq("rebuilt m10", m[1][0], R(0.0));
    vlemma_eq("rebuilt m21", m[2][1], R(0.0)); vlemma_eq("rebuilt m22", m[2][2], R(0.0));
    vassert("m20 within 0.13", (m[2][0] - w[2][0] <= R(0.13)) & (m[2][0] - w[2][0] >= R(-0.13)));
    vassert("m00 within 0.13", (m[0][0] - w[0][0] <= R(0.13)) & (m[0][0] - w[0][0] >= R(-0.13)));
    vassert("m10 within 0.13", (m[1][0] - w[1][0] <= R(0.13)) & (m[1][0] - w[1][0] >= R(-0.13)));
    vassert("m21 within 0.13", (m[2][1] - w[2][1] <= R(0.13)) & (m[2][1] - w[2][1] >= R(-0.13)));
    vassert("m22 within 0.13", (m[2][2] - w[2][2] <= R(0.13)) & (m[2][2] - w[2][2] >= R(-0.13)));
    vcover("end");
}
// for |sin y| <= 0.998 the extracted angles rebuild q's rotation exactly: Matrix3::from(Euler::from(q)) = Matrix3::from(q)
fn c07_rebuild(q: Quaternion<R>) {
    unitq(q);
    let (qw, qx, qy, qz) = (q.s, q.v.x, q.v.y, q.v.z);
    let test = qx * qz + qy * qw;
    vassume(test <= R(0.499)); vassume(test >= R(-0.499));
    vlemma_eq("|q|^2 in the code's order", qx * qx + qz * qz + qy * qy + qw * qw, R(1.0));
    let e: Euler<Rad<R>> = q.into();
    vcover("regular path");
    let (two, one) = (R(2.0), R(1.0));
    // the code's own argument terms
    let (sqx, sqy, sqz) = (qx * qx, qy * qy, qz * qz);
    let yx = two * (-qy * qz + qx * qw); let xx = one - two * (sqx + sqy);
    let yz = two * (-qx * qy + qz * qw); let xz = one - two * (sqy + sqz);
    let u = two * (qx * qz + qy * qw);
    let (sx, cx) = (Rad::sin(e.x), Rad::cos(e.x)); let (sy, cy) = (Rad::sin(e.y), Rad::cos(e.y)); let (sz, cz) = (Rad::sin(e.z), Rad::cos(e.z));
    vlemma("|U| <= 0.998", (u <= R(0.998)) & (u >= R(-0.998)));
    vlemma_eq("sin y = U", sy, u);
    vlemma("cos y >= 0", cy >= R(0.0));
    vlemma_eq("cos^2 y = 1 - U^2", cy * cy, one - u * u);
    vlemma("1 - U^2 > 0", one - u * u > R(0.0));
    vlemma("cos y > 0", cy > R(0.0));
    vlemma_eq("radius of x", xx * xx + yx * yx, one - u * u);
    vlemma_eq("radius of z", xz * xz + yz * yz, one - u * u);
    let rx = (xx * xx + yx * yx).sqrt(); let rz = (xz * xz + yz * yz).sqrt();
    vlemma("rx >= 0", rx >= R(0.0)); vlemma_eq("rx^2", rx * rx, cy * cy);
    c07_lemma_sqrt_sq(rx, cy);
    vlemma("rz >= 0", rz >= R(0.0)); vlemma_eq("rz^2", rz * rz, cy * cy);
    c07_lemma_sqrt_sq(rz, cy);
    vlemma_eq("cy sx = Yx", cy * sx, yx); vlemma_eq("cy cx = Xx", cy * cx, xx);
    vlemma_eq("cy sz = Yz", cy * sz, yz); vlemma_eq("cy cz = Xz", cy * cz, xz);
    c07_lemma_mixed(cy, sx, cx, sy, sz, cz, yx, xx, yz, xz, u);
    let m = a3(Matrix3::from(e)); let w = a3(Matrix3::from(q));
    let k = cy * cy;
    // the five entries that are single products
    vassert_eq("m00", m[0][0], w[0][0]); vassert_eq("m10", m[1][0], w[1][0]); vassert_eq("m20", m[2][0], w[2][0]);
    vassert_eq("m21", m[2][1], w[2][1]); vassert_eq("m22", m[2][2], w[2][2]);
    // the four mixed entries: numerator = M(q)[c][r] (1 - U^2) modulo |q| = 1, then cancel cos^2 y > 0
    vlemma_eq("shape m01", m[0][1], cx * sz + sx * sy * cz); vlemma_eq("shape m02", m[0][2], sx * sz - cx * sy * cz);
    vlemma_eq("shape m11", m[1][1], cx * cz - sx * sy * sz); vlemma_eq("shape m12", m[1][2], sx * cz + cx * sy * sz);
    vlemma_eq("unit (restated)", qnorm2(q), R(1.0));
    vlemma_eq("numerator 01", xx * yz + yx * u * xz, w[0][1] * (one - u * u));
    vlemma_eq("numerator 02", yx * yz - xx * u * xz, w[0][2] * (one - u * u));
    vlemma_eq("unit (restated again)", qw * qw + qx * qx + qy * qy + qz * qz, R(1.0));
    vlemma_eq("numerator 11", xx * xz - yx * u * yz, w[1][1] * (one - u * u));
    vlemma_eq("numerator 12", yx * xz + xx * u * yz, w[1][2] * (one - u * u));
    vlemma_eq("m01 k = w01 k", m[0][1] * k, w[0][1] * k); c07_lemma_cancel(m[0][1], w[0][1], k);
    vlemma_eq("m02 k = w02 k", m[0][2] * k, w[0][2] * k); c07_lemma_cancel(m[0][2], w[0][2], k);
    vlemma_eq("m11 k = w11 k", m[1][1] * k, w[1][1] * k); c07_lemma_cancel(m[1][1], w[1][1], k);
    vlemma_eq("m12 k = w12 k", m[1][2] * k, w[1][2] * k); c07_lemma_cancel(m[1][2], w[1][2], k);
    vassert_eq("m01", m[0][1], w[0][1]); vassert_eq("m02", m[0][2], w[0][2]); vassert_eq("m11", m[1][1], w[1][1]); vassert_eq("m12", m[1][2], w[1][2]);
    vcover("end");
}
}
#[cfg(feature = "native")]
pub fn reg() -> Vec<(&'static str, crate::HarnessFn)> { let mut v = reg0(); v.extend(rad::reg()); v.extend(deg::reg()); v }
