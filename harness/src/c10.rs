//! C10 -- projections map the view volume onto the clip cube and reject bad parameters.
use crate::util::*;
use crate::*;
use cgmath::*;

const TINY: f64 = 1e-9;
#[inline(always)] fn hom(m: Matrix4<R>, x: R, y: R, z: R) -> [R; 4] { mulv_n(a4(m), [x, y, z, R(1.0)]) }
#[inline(always)] fn far_from_zero(x: R) { vassume((x > R(TINY)) | (x < R(-TINY))); }

harnesses! { reg;
// ortho: the box [l,r]x[b,t]x[-n,-f] goes affinely onto the cube, near -> -1, far -> +1
fn c10_ortho(l: R, r: R, b: R, t: R, n: R, f: R) {
    vassume(l != r); vassume(b != t); vassume(n != f);
    let m = ortho(l, r, b, t, n, f);
    vassert_eq("From<Ortho> = ortho()", Matrix4::from(Ortho { left: l, right: r, bottom: b, top: t, near: n, far: f }), m);
    let xs = [l, r]; let ys = [b, t]; let zs = [n, f]; let sg = [R(-1.0), R(1.0)];
    let mut i = 0; while i < 2 { let mut j = 0; while j < 2 { let mut k = 0; while k < 2 {
        vassert_eq("corner -> cube corner", hom(m, xs[i], ys[j], -zs[k]), [sg[i], sg[j], sg[k], R(1.0)]);
        k += 1; } j += 1; } i += 1; }
    // affine: bottom row (0,0,0,1), and the centre goes to the origin
    let a = a4(m);
    vassert_eq("affine", [a[0][3], a[1][3], a[2][3], a[3][3]], [R(0.0), R(0.0), R(0.0), R(1.0)]);
    vassert_eq("centre -> origin", hom(m, (l + r) / R(2.0), (b + t) / R(2.0), -(n + f) / R(2.0)), [R(0.0), R(0.0), R(0.0), R(1.0)]);
    vcover("end");
}
// frustum: near rectangle and the similar far rectangle go, after division by w = -z, to the z = -1 / +1 faces
fn c10_frustum(l: R, r: R, b: R, t: R, n: R, f: R) {
    vassume(l < r); vassume(b < t); vassume(n < f); vassume(n > R(0.0));
    let m = frustum(l, r, b, t, n, f);
    vassert_eq("From<Perspective> = frustum()", Matrix4::from(Perspective { left: l, right: r, bottom: b, top: t, near: n, far: f }), m);
    let xs = [l, r]; let ys = [b, t]; let sg = [R(-1.0), R(1.0)];
    let k = f / n;
    let mut i = 0; while i < 2 { let mut j = 0; while j < 2 {
        let h = hom(m, xs[i], ys[j], -n);
        vassert_eq("near corner: w = -z", h[3], n);
        vassert_eq("near corner -> z=-1 face", [h[0] / h[3], h[1] / h[3], h[2] / h[3]], [sg[i], sg[j], R(-1.0)]);
        let g = hom(m, xs[i] * k, ys[j] * k, -f);
        vassert_eq("far corner: w = -z", g[3], f);
        vassert_eq("far corner -> z=+1 face", [g[0] / g[3], g[1] / g[3], g[2] / g[3]], [sg[i], sg[j], R(1.0)]);
        // the same through the library's own point transform (which performs the divide by w)
        let q = Transform::<Point3<R>>::transform_point(&m, Point3::new(xs[i] * k, ys[j] * k, -f));
        vassert_eq("transform_point(far corner)", [q.x, q.y, q.z], [sg[i], sg[j], R(1.0)]);
        j += 1; } i += 1; }
    vcover("end");
}
// degenerate but accepted frustum parameters (left = right etc. are not rejected by the documented preconditions; they divide by zero) are outside the claim

// perspective = frustum of the symmetric window of half-height n tan(fovy/2), half-width aspect times that
fn c10_perspective_is_frustum(fovy: R, aspect: R, n: R, f: R) {
    vassume(fovy > R(0.0)); vassume(fovy < R(std::f64::consts::PI));
    vassume(aspect > R(TINY)); vassume(n > R(0.0)); vassume(f > n + R(TINY));
    let pf = PerspectiveFov { fovy: Rad(fovy), aspect, near: n, far: f };
    let p = pf.to_perspective();
    let tn = Angle::tan(Rad(fovy / R(2.0)));
    vlemma("tan(fovy/2) > 0", tn > R(0.0));
    vassert_eq("to_perspective window", [p.left, p.right, p.bottom, p.top, p.near, p.far], [-(n * tn * aspect), n * tn * aspect, -(n * tn), n * tn, n, f]);
    let m = perspective(Rad(fovy), aspect, n, f);
    vassert_eq("From<PerspectiveFov> = perspective()", Matrix4::from(pf), m);
    vassert_eq("perspective = frustum(to_perspective)", m, frustum(p.left, p.right, p.bottom, p.top, p.near, p.far));
    vassert_eq("perspective(Deg) = perspective(Rad)", perspective(Deg(fovy * R(180.0) / R(std::f64::consts::PI)), aspect, n, f).x.y, m.x.y);
    vcover("end");
}
// perspective on its whole valid domain (near > far and negative aspect included): entries from the definition
fn c10_perspective_entries(fovy: R, aspect: R, n: R, f: R) {
    vassume(fovy > R(0.0)); vassume(fovy < R(std::f64::consts::PI));
    far_from_zero(aspect); vassume(n > R(0.0)); vassume(f > R(0.0)); far_from_zero(f - n);
    let tn = Angle::tan(Rad(fovy / R(2.0)));
    vlemma("tan(fovy/2) > 0", tn > R(0.0));
    let m = perspective(Rad(fovy), aspect, n, f);
    let o = R(0.0);
    vassert_eq("entries", a4(m), [[R(1.0) / (tn * aspect), o, o, o], [o, R(1.0) / tn, o, o], [o, o, (f + n) / (n - f), R(-1.0)], [o, o, R(2.0) * f * n / (n - f), o]]);
    // near / far planes go to -1 / +1 after the divide
    let h = hom(m, o, o, -n); vassert_eq("z=-n -> -1", h[2] / h[3], R(-1.0));
    let g = hom(m, o, o, -f); vassert_eq("z=-f -> +1", g[2] / g[3], R(1.0));
    vcover("end");
}
// planar: window of height h and width aspect*h at z = 0 -> [-1,1]^2; z=-n -> -1, z=-f -> +1; focal point at (h/2)cot(fovy/2) behind the origin
fn c10_planar(fovy: R, aspect: R, h: R, n: R, f: R) {
    vassume(fovy > R(0.0)); vassume(fovy < R(std::f64::consts::PI));
    far_from_zero(aspect); vassume(h > R(0.0)); far_from_zero(f - n);
    let tn = Angle::tan(Rad(fovy / R(2.0)));
    vlemma("tan(fovy/2) > 0", tn > R(0.0));
    let focal = h / (R(2.0) * tn);              // distance of the focal point behind the origin
    // the constructor's own precondition: the focal point (at z = +focal) is not between the planes z = -n and z = -f
    vassume((-focal < Float::min(f, n)) | (-focal > Float::max(f, n)));
    let m = planar(Rad(fovy), aspect, h, n, f);
    vassert_eq("From<PlanarFov> = planar()", Matrix4::from(PlanarFov { fovy: Rad(fovy), aspect, height: h, near: n, far: f }), m);
    let sg = [R(-1.0), R(1.0)];
    let mut i = 0; while i < 2 { let mut j = 0; while j < 2 {
        let c = hom(m, sg[i] * aspect * h / R(2.0), sg[j] * h / R(2.0), R(0.0));
        vassert_eq("window corner (w = 1)", c[3], R(1.0));
        vassert_eq("window corner -> [-1,1]^2", [c[0], c[1]], [sg[i], sg[j]]);
        j += 1; } i += 1; }
    let a = hom(m, R(0.0), R(0.0), -n); vassert_eq("z=-n -> -1", a[2] / a[3], R(-1.0));
    let b = hom(m, R(0.0), R(0.0), -f); vassert_eq("z=-f -> +1", b[2] / b[3], R(1.0));
    let w0 = hom(m, R(0.0), R(0.0), focal); vassert_eq("focal point: w = 0 at z = (h/2)cot(fovy/2)", w0[3], R(0.0));
    vcover("end");
}
// ---- rejection: each documented precondition violated => no path returns
fn c10_reject_persp_fovy_low(fovy: R, aspect: R, n: R, f: R) { vmay_panic(); vassume(fovy <= R(0.0)); let _m = perspective(Rad(fovy), aspect, n, f); vmust_not_reach("fovy <= 0 accepted"); }
// (bounds are stated with pi itself, not with cgmath's half-turn constant: a wrong constant must not move the oracle)
fn c10_reject_persp_fovy_high(fovy: R, aspect: R, n: R, f: R) { vmay_panic(); vassume(fovy >= R(std::f64::consts::PI)); let _m = perspective(Rad(fovy), aspect, n, f); vmust_not_reach("fovy >= pi accepted"); }
fn c10_reject_persp_aspect(fovy: R, n: R, f: R) { vmay_panic(); let _m = perspective(Rad(fovy), R(0.0), n, f); vmust_not_reach("zero aspect accepted"); }
fn c10_reject_persp_near(fovy: R, aspect: R, n: R, f: R) { vmay_panic(); vassume(n <= R(0.0)); let _m = perspective(Rad(fovy), aspect, n, f); vmust_not_reach("near <= 0 accepted"); }
fn c10_reject_persp_far(fovy: R, aspect: R, n: R, f: R) { vmay_panic(); vassume(f <= R(0.0)); let _m = perspective(Rad(fovy), aspect, n, f); vmust_not_reach("far <= 0 accepted"); }
fn c10_reject_persp_near_eq_far(fovy: R, aspect: R, n: R) { vmay_panic(); let _m = perspective(Rad(fovy), aspect, n, n); vmust_not_reach("near = far accepted"); }
fn c10_reject_frustum_lr(l: R, r: R, b: R, t: R, n: R, f: R) { vmay_panic(); vassume(l > r); let _m = frustum(l, r, b, t, n, f); vmust_not_reach("left > right accepted"); }
fn c10_reject_frustum_bt(l: R, r: R, b: R, t: R, n: R, f: R) { vmay_panic(); vassume(b > t); let _m = frustum(l, r, b, t, n, f); vmust_not_reach("bottom > top accepted"); }
fn c10_reject_frustum_nf(l: R, r: R, b: R, t: R, n: R, f: R) { vmay_panic(); vassume(n > f); let _m = frustum(l, r, b, t, n, f); vmust_not_reach("near > far accepted"); }
fn c10_reject_planar_fovy_high(fovy: R, aspect: R, h: R, n: R, f: R) { vmay_panic(); vassume(fovy >= R(std::f64::consts::PI)); let _m = planar(Rad(fovy), aspect, h, n, f); vmust_not_reach("fovy >= pi accepted"); }
fn c10_reject_planar_fovy_low(fovy: R, aspect: R, h: R, n: R, f: R) { vmay_panic(); vassume(fovy <= -R(std::f64::consts::PI)); let _m = planar(Rad(fovy), aspect, h, n, f); vmust_not_reach("fovy <= -pi accepted"); }
fn c10_reject_planar_height(fovy: R, aspect: R, h: R, n: R, f: R) { vmay_panic(); vassume(h < R(0.0)); let _m = planar(Rad(fovy), aspect, h, n, f); vmust_not_reach("negative height accepted"); }
fn c10_reject_planar_aspect(fovy: R, h: R, n: R, f: R) { vmay_panic(); let _m = planar(Rad(fovy), R(0.0), h, n, f); vmust_not_reach("zero aspect accepted"); }
fn c10_reject_planar_near_eq_far(fovy: R, aspect: R, h: R, n: R) { vmay_panic(); let _m = planar(Rad(fovy), aspect, h, n, n); vmust_not_reach("near = far accepted"); }
fn c10_reject_planar_focal(fovy: R, aspect: R, h: R, n: R, f: R) {
    vmay_panic();
    vassume(fovy > R(0.0)); vassume(fovy < R(std::f64::consts::PI)); vassume(h > R(0.0));
    let tn = Angle::tan(Rad(fovy / R(2.0)));
    vlemma("tan(fovy/2) > 0", tn > R(0.0));
    let focal = -(h / (R(2.0) * tn));
    vassume((focal >= Float::min(f, n)) & (focal <= Float::max(f, n)));
    let _m = planar(Rad(fovy), aspect, h, n, f);
    vmust_not_reach("focal point between the planes accepted");
}
// the same for a negative field of view (planar allows -pi < fovy < 0: the focal point is then in front of the origin)
fn c10_reject_planar_focal_neg(fovy: R, aspect: R, h: R, n: R, f: R) {
    vmay_panic();
    vassume(fovy < R(0.0)); vassume(fovy > -R(std::f64::consts::PI)); vassume(h > R(0.0));
    let tp = Angle::tan(Rad(-fovy / R(2.0)));
    vlemma("tan(-fovy/2) > 0", tp > R(0.0));
    let tn = Angle::tan(Rad(fovy / R(2.0)));
    vlemma_eq("tan is odd", tn, -tp);
    let focal = -(h / (R(2.0) * tn));
    vassume((focal >= Float::min(f, n)) & (focal <= Float::max(f, n)));
    let _m = planar(Rad(fovy), aspect, h, n, f);
    vmust_not_reach("focal point between the planes accepted (negative fovy)");
}
// ---- and valid parameters are accepted (the returning path exists and no panic path is feasible)
fn c10_accept_perspective(fovy: R, aspect: R, n: R, f: R) {
    vassume(fovy > R(0.0)); vassume(fovy < R(std::f64::consts::PI));
    far_from_zero(aspect); vassume(n > R(0.0)); vassume(f > R(0.0)); far_from_zero(f - n);
    let _m = perspective(Rad(fovy), aspect, n, f);
    vcover("returned");
}
fn c10_accept_frustum(l: R, r: R, b: R, t: R, n: R, f: R) {
    vassume(l <= r); vassume(b <= t); vassume(n <= f);
    let _m = frustum(l, r, b, t, n, f);
    vcover("returned");
}
}
