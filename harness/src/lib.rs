//! Harness crate for engine M (mirsmt): instantiates cgmath's generic code at the abstract
//! scalar `R`, states each property as ordinary Rust over the public API, and exposes the
//! same functions to a native replay binary.
//!
//! The MIR of this crate (nightly, fully inlined) is what the symbolic executor runs; the
//! `v*` marker functions below are intercepted by name.  Compiled natively (feature
//! `native`) the markers record what they saw, which is how counterexamples are replayed and
//! how the executor itself is validated (concrete differential runs).
#![allow(dead_code, unused_imports, unused_macros, deprecated)]
#![allow(clippy::all)]
extern crate cgmath;
use cgmath::*;
use num_traits::{Float, Num, NumCast, One, ToPrimitive, Zero};
use std::cell::RefCell;
use std::ops::*;

// ------------------------------------------------------------------------------------------
// The abstract scalar.  Field operations are inlined down to primitive f64 BinOps; every
// other operation stays an opaque call the executor interprets (DESIGN 1.1(a),(d)).
// ------------------------------------------------------------------------------------------
#[derive(Copy, Clone, Debug, PartialEq)]
pub struct R(pub f64);
// comparisons lower to single f64 comparisons (the derived impl would route every `<` through a
// four-way partial_cmp diamond and multiply paths); semantics are those of f64, NaN included
impl PartialOrd for R {
    #[inline(always)] fn partial_cmp(&self, o: &R) -> Option<std::cmp::Ordering> { self.0.partial_cmp(&o.0) }
    #[inline(always)] fn lt(&self, o: &R) -> bool { self.0 < o.0 }
    #[inline(always)] fn le(&self, o: &R) -> bool { self.0 <= o.0 }
    #[inline(always)] fn gt(&self, o: &R) -> bool { self.0 > o.0 }
    #[inline(always)] fn ge(&self, o: &R) -> bool { self.0 >= o.0 }
}

macro_rules! binop { ($Tr:ident, $f:ident, $TrA:ident, $fa:ident, $op:tt) => {
    impl $Tr for R { type Output = R; #[inline(always)] fn $f(self, o: R) -> R { R(self.0 $op o.0) } }
    impl<'a> $Tr<&'a R> for R { type Output = R; #[inline(always)] fn $f(self, o: &'a R) -> R { R(self.0 $op o.0) } }
    impl $TrA for R { #[inline(always)] fn $fa(&mut self, o: R) { self.0 = self.0 $op o.0; } }
}}
binop!(Add, add, AddAssign, add_assign, +);
binop!(Sub, sub, SubAssign, sub_assign, -);
binop!(Mul, mul, MulAssign, mul_assign, *);
binop!(Div, div, DivAssign, div_assign, /);
impl Rem for R { type Output = R; #[inline(never)] fn rem(self, o: R) -> R { R(self.0 % o.0) } }
impl RemAssign for R { #[inline(always)] fn rem_assign(&mut self, o: R) { *self = *self % o; } }
impl Neg for R { type Output = R; #[inline(always)] fn neg(self) -> R { R(-self.0) } }
impl Zero for R { #[inline(always)] fn zero() -> R { R(0.0) } #[inline(always)] fn is_zero(&self) -> bool { self.0 == 0.0 } }
impl One for R { #[inline(always)] fn one() -> R { R(1.0) } }
impl Num for R { type FromStrRadixErr = (); fn from_str_radix(_: &str, _: u32) -> Result<R, ()> { Err(()) } }
impl ToPrimitive for R {
    #[inline(never)] fn to_i64(&self) -> Option<i64> { self.0.to_i64() }
    #[inline(never)] fn to_u64(&self) -> Option<u64> { self.0.to_u64() }
    #[inline(never)] fn to_f64(&self) -> Option<f64> { Some(self.0) }
}
/// Every numeric literal cgmath obtains through `NumCast::from` / `cast(..).unwrap()` arrives here.
#[inline(never)] pub fn r_const(c: f64) -> R { R(c) }
impl NumCast for R { #[inline(always)] fn from<T: ToPrimitive>(n: T) -> Option<R> { match n.to_f64() { Some(x) => Some(r_const(x)), None => None } } }
impl std::iter::Sum for R { fn sum<I: Iterator<Item = R>>(it: I) -> R { it.fold(R(0.0), |a, b| a + b) } }
impl std::iter::Product for R { fn product<I: Iterator<Item = R>>(it: I) -> R { it.fold(R(1.0), |a, b| a * b) } }

macro_rules! un { ($($f:ident),*) => { $( #[inline(never)] fn $f(self) -> R { R(self.0.$f()) } )* } }
macro_rules! cst { ($($f:ident => $e:expr),*) => { $( #[inline(never)] fn $f() -> R { R($e) } )* } }
macro_rules! pred { ($($f:ident),*) => { $( #[inline(never)] fn $f(self) -> bool { self.0.$f() } )* } }
impl Float for R {
    cst!(nan => f64::NAN, infinity => f64::INFINITY, neg_infinity => f64::NEG_INFINITY, neg_zero => -0.0,
         min_value => f64::MIN, min_positive_value => f64::MIN_POSITIVE, max_value => f64::MAX, epsilon => f64::EPSILON);
    pred!(is_nan, is_infinite, is_finite, is_normal, is_sign_positive, is_sign_negative);
    fn classify(self) -> std::num::FpCategory { self.0.classify() }
    un!(floor, ceil, round, trunc, fract, abs, signum, recip, sqrt, exp, exp2, ln, log2, log10, cbrt,
        sin, cos, tan, asin, acos, atan, exp_m1, ln_1p, sinh, cosh, tanh, asinh, acosh, atanh);
    #[inline(never)] fn mul_add(self, a: R, b: R) -> R { R(self.0.mul_add(a.0, b.0)) }
    #[inline(never)] fn powi(self, n: i32) -> R { R(self.0.powi(n)) }
    #[inline(never)] fn powf(self, n: R) -> R { R(self.0.powf(n.0)) }
    #[inline(never)] fn log(self, n: R) -> R { R(self.0.log(n.0)) }
    #[inline(never)] fn max(self, n: R) -> R { R(self.0.max(n.0)) }
    #[inline(never)] fn min(self, n: R) -> R { R(self.0.min(n.0)) }
    #[inline(never)] fn abs_sub(self, n: R) -> R { R((self.0 - n.0).max(0.0)) }
    #[inline(never)] fn hypot(self, n: R) -> R { R(self.0.hypot(n.0)) }
    #[inline(never)] fn atan2(self, n: R) -> R { R(self.0.atan2(n.0)) }
    #[inline(never)] fn copysign(self, n: R) -> R { R(self.0.copysign(n.0)) }
    #[inline(always)] fn sin_cos(self) -> (R, R) { (self.sin(), self.cos()) }
    fn integer_decode(self) -> (u64, i16, i8) { self.0.integer_decode() }
}
impl approx::AbsDiffEq for R { type Epsilon = R;
    #[inline(never)] fn default_epsilon() -> R { R(f64::EPSILON) }
    #[inline(never)] fn abs_diff_eq(&self, o: &R, e: R) -> bool { self.0.abs_diff_eq(&o.0, e.0) } }
impl approx::RelativeEq for R {
    #[inline(never)] fn default_max_relative() -> R { R(f64::EPSILON) }
    #[inline(never)] fn relative_eq(&self, o: &R, e: R, m: R) -> bool { self.0.relative_eq(&o.0, e.0, m.0) } }
impl approx::UlpsEq for R {
    #[inline(never)] fn default_max_ulps() -> u32 { 4 }
    #[inline(never)] fn ulps_eq(&self, o: &R, e: R, m: u32) -> bool { self.0.ulps_eq(&o.0, e.0, m) } }

#[inline(always)] pub fn r(x: f64) -> R { R(x) }

// ------------------------------------------------------------------------------------------
// Leaves: the flat view of a value, in declaration order -- the same order the executor's
// memory model uses.  Natively it is how marker arguments are compared and inputs are built.
// ------------------------------------------------------------------------------------------
#[derive(Copy, Clone, Debug, PartialEq)]
pub enum Leaf { F(f64), I(i128), B(bool) }

pub trait Leaves: Sized {
    fn leaves(&self, out: &mut Vec<Leaf>);
    fn build(it: &mut dyn Iterator<Item = Leaf>) -> Self;
}
impl Leaves for R {
    fn leaves(&self, out: &mut Vec<Leaf>) { out.push(Leaf::F(self.0)) }
    fn build(it: &mut dyn Iterator<Item = Leaf>) -> R { match it.next() { Some(Leaf::F(x)) => R(x), Some(Leaf::I(x)) => R(x as f64), o => panic!("bad leaf for R: {:?}", o) } }
}
impl Leaves for f64 {
    fn leaves(&self, out: &mut Vec<Leaf>) { out.push(Leaf::F(*self)) }
    fn build(it: &mut dyn Iterator<Item = Leaf>) -> f64 { match it.next() { Some(Leaf::F(x)) => x, Some(Leaf::I(x)) => x as f64, o => panic!("bad leaf for f64: {:?}", o) } }
}
impl Leaves for f32 {
    fn leaves(&self, out: &mut Vec<Leaf>) { out.push(Leaf::F(*self as f64)) }
    fn build(it: &mut dyn Iterator<Item = Leaf>) -> f32 { match it.next() { Some(Leaf::F(x)) => x as f32, Some(Leaf::I(x)) => x as f32, o => panic!("bad leaf for f32: {:?}", o) } }
}
impl Leaves for bool {
    fn leaves(&self, out: &mut Vec<Leaf>) { out.push(Leaf::B(*self)) }
    fn build(it: &mut dyn Iterator<Item = Leaf>) -> bool { match it.next() { Some(Leaf::B(x)) => x, Some(Leaf::I(x)) => x != 0, o => panic!("bad leaf for bool: {:?}", o) } }
}
impl Leaves for () {
    fn leaves(&self, _: &mut Vec<Leaf>) {}
    fn build(_: &mut dyn Iterator<Item = Leaf>) {}
}
macro_rules! int_leaves { ($($t:ty),*) => { $(
    impl Leaves for $t {
        fn leaves(&self, out: &mut Vec<Leaf>) { out.push(Leaf::I(*self as i128)) }
        fn build(it: &mut dyn Iterator<Item = Leaf>) -> $t { match it.next() { Some(Leaf::I(x)) => x as $t, Some(Leaf::F(x)) => x as $t, o => panic!("bad leaf for int: {:?}", o) } }
    } )* } }
int_leaves!(u8, u16, u32, u64, usize, i8, i16, i32, i64, isize, u128, i128);

macro_rules! struct_leaves { ($($T:ident<$($P:ident),*> { $($f:ident),* })*) => { $(
    impl<$($P: Leaves),*> Leaves for $T<$($P),*> {
        fn leaves(&self, out: &mut Vec<Leaf>) { $( self.$f.leaves(out); )* }
        fn build(it: &mut dyn Iterator<Item = Leaf>) -> Self { $( let $f = Leaves::build(it); )* $T { $($f),* } }
    } )* } }
struct_leaves! {
    Vector1<S> { x } Vector2<S> { x, y } Vector3<S> { x, y, z } Vector4<S> { x, y, z, w }
    Point1<S> { x } Point2<S> { x, y } Point3<S> { x, y, z }
    Matrix2<S> { x, y } Matrix3<S> { x, y, z } Matrix4<S> { x, y, z, w }
    Quaternion<S> { v, s }
    Euler<A> { x, y, z }
    Perspective<S> { left, right, bottom, top, near, far }
    Ortho<S> { left, right, bottom, top, near, far }
}
impl<S: Leaves> Leaves for Rad<S> { fn leaves(&self, out: &mut Vec<Leaf>) { self.0.leaves(out) } fn build(it: &mut dyn Iterator<Item = Leaf>) -> Self { Rad(Leaves::build(it)) } }
impl<S: Leaves> Leaves for Deg<S> { fn leaves(&self, out: &mut Vec<Leaf>) { self.0.leaves(out) } fn build(it: &mut dyn Iterator<Item = Leaf>) -> Self { Deg(Leaves::build(it)) } }
impl<S: Leaves> Leaves for PerspectiveFov<S> {
    fn leaves(&self, out: &mut Vec<Leaf>) { self.fovy.leaves(out); self.aspect.leaves(out); self.near.leaves(out); self.far.leaves(out) }
    fn build(it: &mut dyn Iterator<Item = Leaf>) -> Self { let fovy = Leaves::build(it); let aspect = Leaves::build(it); let near = Leaves::build(it); let far = Leaves::build(it); PerspectiveFov { fovy, aspect, near, far } } }
impl<S: Leaves> Leaves for PlanarFov<S> {
    fn leaves(&self, out: &mut Vec<Leaf>) { self.fovy.leaves(out); self.aspect.leaves(out); self.height.leaves(out); self.near.leaves(out); self.far.leaves(out) }
    fn build(it: &mut dyn Iterator<Item = Leaf>) -> Self { let fovy = Leaves::build(it); let aspect = Leaves::build(it); let height = Leaves::build(it); let near = Leaves::build(it); let far = Leaves::build(it); PlanarFov { fovy, aspect, height, near, far } } }
impl<S: Leaves + BaseFloat> Leaves for Basis2<S> {
    fn leaves(&self, out: &mut Vec<Leaf>) { let m: &Matrix2<S> = self.as_ref(); m.leaves(out) }
    fn build(_: &mut dyn Iterator<Item = Leaf>) -> Self { panic!("Basis2 cannot be built from leaves; build it from an angle in the harness") } }
impl<S: Leaves + BaseFloat> Leaves for Basis3<S> {
    fn leaves(&self, out: &mut Vec<Leaf>) { let m: &Matrix3<S> = self.as_ref(); m.leaves(out) }
    fn build(_: &mut dyn Iterator<Item = Leaf>) -> Self { panic!("Basis3 cannot be built from leaves; build it from a quaternion in the harness") } }
impl<V: VectorSpace + Leaves, Rt: Leaves> Leaves for Decomposed<V, Rt> where V::Scalar: Leaves {
    fn leaves(&self, out: &mut Vec<Leaf>) { self.scale.leaves(out); self.rot.leaves(out); self.disp.leaves(out) }
    fn build(it: &mut dyn Iterator<Item = Leaf>) -> Self { let scale = Leaves::build(it); let rot = Leaves::build(it); let disp = Leaves::build(it); Decomposed { scale, rot, disp } } }
impl<T: Leaves> Leaves for Option<T> {
    fn leaves(&self, out: &mut Vec<Leaf>) { match self { Some(x) => { out.push(Leaf::I(1)); x.leaves(out) } None => out.push(Leaf::I(0)) } }
    fn build(it: &mut dyn Iterator<Item = Leaf>) -> Self { match it.next() { Some(Leaf::I(0)) => None, _ => Some(Leaves::build(it)) } } }
impl<T: Leaves, const N: usize> Leaves for [T; N] {
    fn leaves(&self, out: &mut Vec<Leaf>) { for x in self.iter() { x.leaves(out) } }
    fn build(it: &mut dyn Iterator<Item = Leaf>) -> Self { std::array::from_fn(|_| Leaves::build(it)) } }
macro_rules! tuple_leaves { ($(($($n:tt $T:ident),*))*) => { $(
    impl<$($T: Leaves),*> Leaves for ($($T,)*) {
        fn leaves(&self, out: &mut Vec<Leaf>) { $( self.$n.leaves(out); )* }
        fn build(it: &mut dyn Iterator<Item = Leaf>) -> Self { ($( <$T as Leaves>::build(it), )*) }
    } )* } }
tuple_leaves! { (0 A, 1 B) (0 A, 1 B, 2 C) (0 A, 1 B, 2 C, 3 D) }

// ------------------------------------------------------------------------------------------
// Markers.  Never inlined, so they survive in the MIR as calls the executor intercepts.
// Natively they append to a thread-local log.
// ------------------------------------------------------------------------------------------
#[derive(Clone, Debug)]
pub enum Ev {
    Assume { ok: bool, lemma: Option<&'static str> },
    AssumeEq { a: Vec<Leaf>, b: Vec<Leaf>, lemma: Option<&'static str> },
    Assert { id: &'static str, ok: bool },
    AssertEq { id: &'static str, a: Vec<Leaf>, b: Vec<Leaf> },
    Cover { id: &'static str },
    Out { id: &'static str, v: Vec<Leaf> },
}
thread_local! { pub static LOG: RefCell<Vec<Ev>> = RefCell::new(Vec::new()); }
// Native only: which harness / lemma function is running.  An assumption logged inside a lemma function that was
// *called from* a harness (depth >= 2) is a precondition of that lemma's application, i.e. an obligation, and the
// replay must be able to tell it from an assumption about the inputs.
thread_local! { pub static SCOPES: RefCell<Vec<&'static str>> = RefCell::new(Vec::new()); }
pub struct Scope;
impl Scope { pub fn enter(name: &'static str) -> Scope { SCOPES.with(|s| s.borrow_mut().push(name)); Scope } }
impl Drop for Scope { fn drop(&mut self) { SCOPES.with(|s| { s.borrow_mut().pop(); }) } }
fn lemma_scope() -> Option<&'static str> { SCOPES.with(|s| { let s = s.borrow(); if s.len() >= 2 { s.last().copied() } else { None } }) }
fn log(e: Ev) { LOG.with(|l| l.borrow_mut().push(e)) }
fn lv<T: Leaves>(x: &T) -> Vec<Leaf> { let mut v = Vec::new(); x.leaves(&mut v); v }

/// Restrict the inputs (a precondition of the property).  Must precede the code it constrains.
#[inline(never)] pub fn vassume(c: bool) { log(Ev::Assume { ok: c, lemma: lemma_scope() }) }
/// Equational precondition, leaf-wise (e.g. `|q|^2 = 1`); natively checked with tolerance.
#[inline(never)] pub fn vassume_eq<T: Leaves>(a: T, b: T) { log(Ev::AssumeEq { a: lv(&a), b: lv(&b), lemma: lemma_scope() }) }
/// Proof obligation: `c` holds on every path reaching this call.
#[inline(never)] pub fn vassert(id: &'static str, c: bool) { log(Ev::Assert { id, ok: c }) }
/// Proof obligation: the two values are equal leaf by leaf.
#[inline(never)] pub fn vassert_eq<T: Leaves>(id: &'static str, a: T, b: T) { log(Ev::AssertEq { id, a: lv(&a), b: lv(&b) }) }
/// Like `vassert`, and assumed afterwards on this path (a staged lemma).
#[inline(never)] pub fn vlemma(id: &'static str, c: bool) { log(Ev::Assert { id, ok: c }) }
#[inline(never)] pub fn vlemma_eq<T: Leaves>(id: &'static str, a: T, b: T) { log(Ev::AssertEq { id, a: lv(&a), b: lv(&b) }) }
/// Reachability witness: at least one feasible path must reach this call.
#[inline(never)] pub fn vcover(id: &'static str) { log(Ev::Cover { id }) }
/// Expose a value to the differential validation (executor in concrete mode vs native build).
#[inline(never)] pub fn vout<T: Leaves>(id: &'static str, v: T) { log(Ev::Out { id, v: lv(&v) }) }
/// Marks the point after which reaching `return` is itself a violation (the call before it was
/// required to panic).  The executor checks that no feasible path gets here.
#[inline(never)] pub fn vmust_not_reach(id: &'static str) { log(Ev::Assert { id, ok: false }) }

/// Rounding-error obligation (ERR mode): |got - want| <= ulps * machine-epsilon * |want|, with `got` computed in
/// floating point (every operation rounds) and `want` exact.
#[inline(never)] pub fn vrel_err<T: RelErr>(id: &'static str, got: T, want: T, ulps: f64) { log(Ev::Assert { id, ok: T::within(got, want, ulps) }) }
pub trait RelErr: Copy { fn within(got: Self, want: Self, ulps: f64) -> bool; }
impl RelErr for f64 { fn within(g: f64, w: f64, u: f64) -> bool { (g - w).abs() <= u * f64::EPSILON * w.abs() } }
impl RelErr for f32 { fn within(g: f32, w: f32, u: f64) -> bool { ((g - w).abs() as f64) <= u * (f32::EPSILON as f64) * (w.abs() as f64) } }
/// The code that follows is expected to panic on (some of) the inputs: panicking paths are not obligations.
#[inline(never)] pub fn vmay_panic() { LOG.with(|l| { let _ = l; }) }

pub type HarnessFn = fn(&mut dyn Iterator<Item = Leaf>);

/// Declares harness functions and (natively) a registry entry for each that builds the
/// arguments from a flat leaf list.
#[macro_export]
macro_rules! harnesses {
    ($reg:ident; $( $(#[$m:meta])* fn $name:ident ( $($arg:ident : $ty:ty),* $(,)? ) $body:block )*) => {
        $( $(#[$m])* #[allow(unused_mut, unused_variables)] #[inline(never)] pub fn $name($($arg: $ty),*) {
            #[cfg(feature = "native")] let _scope = $crate::Scope::enter(stringify!($name));
            $body
        } )*
        #[cfg(feature = "native")]
        pub fn $reg() -> Vec<(&'static str, $crate::HarnessFn)> {
            vec![ $( (stringify!($name), (|it: &mut dyn Iterator<Item = $crate::Leaf>| { $( let $arg: $ty = $crate::Leaves::build(it); )* $name($($arg),*); }) as $crate::HarnessFn) ),* ]
        }
    };
}

pub mod util;
pub mod shims;
pub mod r32;
pub mod util32;

#[cfg(feature = "c01")] pub mod c01;
#[cfg(feature = "c02")] pub mod c02;
#[cfg(feature = "c03")] pub mod c03;
#[cfg(feature = "c04")] pub mod c04;
#[cfg(feature = "c05")] pub mod c05;
#[cfg(feature = "c06")] pub mod c06;
#[cfg(feature = "c07")] pub mod c07;
#[cfg(feature = "c08")] pub mod c08;
#[cfg(feature = "c09")] pub mod c09;
#[cfg(feature = "c10")] pub mod c10;
#[cfg(feature = "c11")] pub mod c11;
#[cfg(feature = "c12")] pub mod c12;
#[cfg(feature = "c13")] pub mod c13;
#[cfg(feature = "c14")] pub mod c14;
#[cfg(feature = "c14")] pub mod c14f;
#[cfg(feature = "c15")] pub mod c15;
#[cfg(feature = "c17")] pub mod c17;
#[cfg(feature = "c17")] pub mod c17_prog;
#[cfg(feature = "c18")] pub mod c18;

#[cfg(feature = "native")]
pub fn registry() -> Vec<(&'static str, HarnessFn)> {
    let mut v: Vec<(&'static str, HarnessFn)> = Vec::new();
    #[cfg(feature = "c01")] v.extend(c01::reg());
    #[cfg(feature = "c02")] v.extend(c02::reg());
    #[cfg(feature = "c03")] v.extend(c03::reg());
    #[cfg(feature = "c04")] v.extend(c04::reg());
    #[cfg(feature = "c05")] v.extend(c05::reg());
    #[cfg(feature = "c06")] v.extend(c06::reg());
    #[cfg(feature = "c07")] v.extend(c07::reg());
    #[cfg(feature = "c08")] v.extend(c08::reg());
    #[cfg(feature = "c09")] v.extend(c09::reg());
    #[cfg(feature = "c10")] v.extend(c10::reg());
    #[cfg(feature = "c11")] v.extend(c11::reg());
    #[cfg(feature = "c12")] v.extend(c12::reg());
    #[cfg(feature = "c13")] v.extend(c13::reg());
    #[cfg(feature = "c14")] v.extend(c14::reg());
    #[cfg(feature = "c14")] v.extend(c14f::reg());
    #[cfg(feature = "c15")] v.extend(c15::reg());
    #[cfg(feature = "c17")] v.extend(c17::reg());
    #[cfg(feature = "c18")] v.extend(c18::reg());
    v
}
