//! C12 -- points form an affine space over vectors; homogeneous coordinates.
use crate::util::*;
use crate::*;
use cgmath::*;
use num_traits::{One, Zero};

macro_rules! any_r { ($x:expr) => { true } }
macro_rules! small_i32 { ($x:expr) => { (($x >= -1000) & ($x <= 1000)) } }

macro_rules! laws { ($S:ty, $P:ident, $V:ident { $($f:ident),+ }, $n:literal, $reg:ident, $ok:ident;
    $faff:ident, $fops:ident, $fdiv:ident, $fmid:ident) => {
harnesses! { $reg;
fn $faff(p: $P<$S>, q: $P<$S>, v: $V<$S>, w: $V<$S>) {
    $( vassume($ok!(p.$f)); vassume($ok!(q.$f)); vassume($ok!(v.$f)); vassume($ok!(w.$f)); )+
    vassert_eq("p+v", p + v, $P { $($f: p.$f + v.$f),+ });
    vassert_eq("p-v", p - v, $P { $($f: p.$f - v.$f),+ });
    vassert_eq("p-q", p - q, $V { $($f: p.$f - q.$f),+ });
    vassert_eq("(p+v)-p=v", (p + v) - p, v);
    vassert_eq("p+(q-p)=q", p + (q - p), q);
    vassert_eq("(p+v)+w=p+(v+w)", (p + v) + w, p + (v + w));
    vassert_eq("p-v=p+(-v)", p - v, p + (-v));
    vassert_eq("to_vec", p.to_vec(), $V { $($f: p.$f),+ });
    vassert_eq("from_vec", <$P<$S>>::from_vec(v), $P { $($f: v.$f),+ });
    vassert_eq("from_vec(to_vec)", <$P<$S>>::from_vec(p.to_vec()), p);
    vassert_eq("to_vec(from_vec)", <$P<$S>>::from_vec(v).to_vec(), v);
    vassert_eq("origin", <$P<$S>>::origin().to_vec(), <$V<$S>>::zero());
    vassert_eq("origin+v", <$P<$S>>::origin() + v, <$P<$S>>::from_vec(v));
    let mut t = p; t += v; vassert_eq("p+=v", t, p + v);
    let mut t = p; t -= v; vassert_eq("p-=v", t, p - v);
    vassert_eq("&p+&v", &p + &v, p + v); vassert_eq("&p-&q", &p - &q, p - q);
    let mut acc = <$S>::zero(); $( acc = acc + p.$f * v.$f; )+
    vassert_eq("dot", EuclideanSpace::dot(p, v), acc);
    vcover("end");
}
fn $fops(p: $P<$S>, q: $P<$S>, a: $S) {
    $( vassume($ok!(p.$f)); vassume($ok!(q.$f)); )+ vassume($ok!(a));
    vassert_eq("p*a", p * a, $P { $($f: p.$f * a),+ });
    let mut t = p; t *= a; vassert_eq("p*=a", t, $P { $($f: p.$f * a),+ });
    vassert_eq("add_ew", p.add_element_wise(q), $P { $($f: p.$f + q.$f),+ });
    vassert_eq("sub_ew", p.sub_element_wise(q), $P { $($f: p.$f - q.$f),+ });
    vassert_eq("mul_ew", p.mul_element_wise(q), $P { $($f: p.$f * q.$f),+ });
    vassert_eq("add_ew_s", p.add_element_wise(a), $P { $($f: p.$f + a),+ });
    vassert_eq("sub_ew_s", p.sub_element_wise(a), $P { $($f: p.$f - a),+ });
    vassert_eq("mul_ew_s", p.mul_element_wise(a), $P { $($f: p.$f * a),+ });
    let mut t = p; t.add_assign_element_wise(q); vassert_eq("add_assign_ew", t, $P { $($f: p.$f + q.$f),+ });
    let mut t = p; t.sub_assign_element_wise(q); vassert_eq("sub_assign_ew", t, $P { $($f: p.$f - q.$f),+ });
    let mut t = p; t.mul_assign_element_wise(q); vassert_eq("mul_assign_ew", t, $P { $($f: p.$f * q.$f),+ });
    let mut t = p; t.add_assign_element_wise(a); vassert_eq("add_assign_ew_s", t, $P { $($f: p.$f + a),+ });
    let mut t = p; t.sub_assign_element_wise(a); vassert_eq("sub_assign_ew_s", t, $P { $($f: p.$f - a),+ });
    let mut t = p; t.mul_assign_element_wise(a); vassert_eq("mul_assign_ew_s", t, $P { $($f: p.$f * a),+ });
    vassert_eq("from_value", <$P<$S>>::from_value(a), $P { $($f: a),+ });
    let mut acc = <$S>::zero(); $( acc = acc + p.$f; )+ vassert_eq("sum", p.sum(), acc);
    let mut acc = <$S>::one(); $( acc = acc * p.$f; )+ vassert_eq("product", p.product(), acc);
    vcover("end");
}
fn $fdiv(p: $P<$S>, q: $P<$S>, a: $S) {
    vassume(a != <$S>::zero()); $( vassume(q.$f != <$S>::zero()); )+
    $( vassume($ok!(p.$f)); vassume($ok!(q.$f)); )+ vassume($ok!(a));
    vassert_eq("p/a", p / a, $P { $($f: p.$f / a),+ });
    vassert_eq("p%a", p % a, $P { $($f: p.$f % a),+ });
    let mut t = p; t /= a; vassert_eq("p/=a", t, $P { $($f: p.$f / a),+ });
    let mut t = p; t %= a; vassert_eq("p%=a", t, $P { $($f: p.$f % a),+ });
    vassert_eq("div_ew", p.div_element_wise(q), $P { $($f: p.$f / q.$f),+ });
    vassert_eq("rem_ew", p.rem_element_wise(q), $P { $($f: p.$f % q.$f),+ });
    vassert_eq("div_ew_s", p.div_element_wise(a), $P { $($f: p.$f / a),+ });
    vassert_eq("rem_ew_s", p.rem_element_wise(a), $P { $($f: p.$f % a),+ });
    let mut t = p; t.div_assign_element_wise(q); vassert_eq("div_assign_ew", t, $P { $($f: p.$f / q.$f),+ });
    let mut t = p; t.rem_assign_element_wise(q); vassert_eq("rem_assign_ew", t, $P { $($f: p.$f % q.$f),+ });
    let mut t = p; t.div_assign_element_wise(a); vassert_eq("div_assign_ew_s", t, $P { $($f: p.$f / a),+ });
    let mut t = p; t.rem_assign_element_wise(a); vassert_eq("rem_assign_ew_s", t, $P { $($f: p.$f % a),+ });
    vcover("end");
}
// (midpoint over integer scalars is not claimed: C12 quantifies over a field)
fn $fmid(p: $P<R>, q: $P<R>) {
    let two = R(2.0);
    vassert_eq("midpoint", p.midpoint(q), $P { $($f: p.$f + (q.$f - p.$f) / two),+ });
    vassert_eq("midpoint symmetric", p.midpoint(q), q.midpoint(p));
    vcover("end");
}
}
}}
pub mod r1 { use super::*; laws!(R, Point1, Vector1 { x }, 1, reg, any_r; c12_aff1, c12_ops1, c12_div1, c12_mid1); }
pub mod r2 { use super::*; laws!(R, Point2, Vector2 { x, y }, 2, reg, any_r; c12_aff2, c12_ops2, c12_div2, c12_mid2); }
pub mod r3 { use super::*; laws!(R, Point3, Vector3 { x, y, z }, 3, reg, any_r; c12_aff3, c12_ops3, c12_div3, c12_mid3); }
pub mod i2 { use super::*; laws!(i32, Point2, Vector2 { x, y }, 2, reg, small_i32; c12_i32_aff2, c12_i32_ops2, c12_i32_div2, c12_i32_mid2); }
pub mod i3 { use super::*; laws!(i32, Point3, Vector3 { x, y, z }, 3, reg, small_i32; c12_i32_aff3, c12_i32_ops3, c12_i32_div3, c12_i32_mid3); }

harnesses! { reg0;
// centroid of 1..4 points = (sum of position vectors) / n  (the slice iterator runs in the executor)
fn c12_centroid3(a: Point3<R>, b: Point3<R>, c: Point3<R>, d: Point3<R>) {
    vassert_eq("centroid n=1", Point3::centroid(&[a]), a);
    vassert_eq("centroid n=2", Point3::centroid(&[a, b]), Point3::new((a.x + b.x) / R(2.0), (a.y + b.y) / R(2.0), (a.z + b.z) / R(2.0)));
    vassert_eq("centroid n=3", Point3::centroid(&[a, b, c]), Point3::new((a.x + b.x + c.x) / R(3.0), (a.y + b.y + c.y) / R(3.0), (a.z + b.z + c.z) / R(3.0)));
    vassert_eq("centroid n=4", Point3::centroid(&[a, b, c, d]), Point3::new((a.x + b.x + c.x + d.x) / R(4.0), (a.y + b.y + c.y + d.y) / R(4.0), (a.z + b.z + c.z + d.z) / R(4.0)));
    vcover("end");
}
// longer lists (BOUND: 1-8 points); the sum of position vectors divided by n
fn c12_centroid3_long(p: [Point3<R>; 8]) {
    let mut n = 5;
    while n <= 8 {
        let mut sx = R(0.0); let mut sy = R(0.0); let mut sz = R(0.0);
        let mut i = 0; while i < n { sx = sx + p[i].x; sy = sy + p[i].y; sz = sz + p[i].z; i += 1; }
        let k = R(n as f64);
        let c = Point3::centroid(&p[..n]);
        vassert_eq("centroid n=5..8", c, Point3::new(sx / k, sy / k, sz / k));
        n += 1;
    }
    vcover("end");
}
// long lists (BOUND: the listed lengths up to 300, dimension 1): lengths around the block sizes a chunked / pairwise /
// unrolled summation would use (15-17, 31-33, 63-65, 127-129, 255-257) and a few others
fn c12_centroid1_big(p: [Point1<R>; 300]) {
    let ns: [usize; 22] = [9, 10, 15, 16, 17, 31, 32, 33, 63, 64, 65, 100, 127, 128, 129, 200, 255, 256, 257, 258, 299, 300];
    let mut j = 0;
    while j < 22 {
        let n = ns[j];
        let mut sx = R(0.0);
        let mut i = 0; while i < n { sx = sx + p[i].x; i += 1; }
        vassert_eq("centroid n=9..300", Point1::centroid(&p[..n]), Point1::new(sx / R(n as f64)));
        j += 1;
    }
    vcover("end");
}
// ... and in dimension 3 (BOUND: eight of those lengths, up to 260)
fn c12_centroid3_big(p: [Point3<R>; 260]) {
    let ns: [usize; 8] = [9, 16, 17, 64, 65, 256, 257, 260];
    let mut j = 0;
    while j < 8 {
        let n = ns[j];
        let mut sx = R(0.0); let mut sy = R(0.0); let mut sz = R(0.0);
        let mut i = 0; while i < n { sx = sx + p[i].x; sy = sy + p[i].y; sz = sz + p[i].z; i += 1; }
        let k = R(n as f64);
        vassert_eq("centroid n=9..260", Point3::centroid(&p[..n]), Point3::new(sx / k, sy / k, sz / k));
        j += 1;
    }
    vcover("end");
}
fn c12_centroid2_long(p: [Point2<R>; 7]) {
    let mut n = 5;
    while n <= 7 {
        let mut sx = R(0.0); let mut sy = R(0.0);
        let mut i = 0; while i < n { sx = sx + p[i].x; sy = sy + p[i].y; i += 1; }
        let k = R(n as f64);
        vassert_eq("centroid n=5..7", Point2::centroid(&p[..n]), Point2::new(sx / k, sy / k));
        n += 1;
    }
    vcover("end");
}
fn c12_centroid2(a: Point2<R>, b: Point2<R>, c: Point2<R>) {
    vassert_eq("centroid n=1", Point2::centroid(&[a]), a);
    vassert_eq("centroid n=2", Point2::centroid(&[a, b]), Point2::new((a.x + b.x) / R(2.0), (a.y + b.y) / R(2.0)));
    vassert_eq("centroid n=3", Point2::centroid(&[a, b, c]), Point2::new((a.x + b.x + c.x) / R(3.0), (a.y + b.y + c.y) / R(3.0)));
    vcover("end");
}
fn c12_centroid1(a: Point1<R>, b: Point1<R>, c: Point1<R>) {
    vassert_eq("centroid n=3", Point1::centroid(&[a, b, c]), Point1::new((a.x + b.x + c.x) / R(3.0)));
    vcover("end");
}
fn c12_homogeneous(p: Point3<R>, k: R) {
    vassume(k != R(0.0));
    let h = p.to_homogeneous();
    vassert_eq("to_homogeneous", h, Vector4::new(p.x, p.y, p.z, R(1.0)));
    vassert_eq("from(k*to)=p", Point3::from_homogeneous(h * k), p);
    vassert_eq("from(to)=p", Point3::from_homogeneous(h), p);
    vcover("end");
}
fn c12_from_homogeneous(v: Vector4<R>) {
    vassume(v.w != R(0.0));
    vassert_eq("from_homogeneous divides by w", Point3::from_homogeneous(v), Point3::new(v.x / v.w, v.y / v.w, v.z / v.w));
    vcover("end");
}
}
#[cfg(feature = "native")]
pub fn reg() -> Vec<(&'static str, crate::HarnessFn)> { let mut v = reg0(); v.extend(r1::reg()); v.extend(r2::reg()); v.extend(r3::reg()); v.extend(i2::reg()); v.extend(i3::reg()); v }
