//! C11 -- magnitude, distance, normalisation, angle, projection.
use crate::util::*;
use crate::*;
use cgmath::*;
use num_traits::{One, Zero};

macro_rules! metric { ($V:ident { $($f:ident),+ }, $reg:ident; $fmag:ident, $fnorm:ident, $fproj:ident) => {
harnesses! { $reg;
fn $fmag(u: $V<R>, v: $V<R>) {
    let mut m2 = R(0.0); $( m2 = m2 + u.$f * u.$f; )+
    vassert_eq("magnitude2", u.magnitude2(), m2);
    let m = u.magnitude();
    vassert_eq("magnitude^2=magnitude2", m * m, m2);
    vassert("magnitude>=0", m >= R(0.0));
    vassert("magnitude2>=0", u.magnitude2() >= R(0.0));
    let mut d2 = R(0.0); $( d2 = d2 + (u.$f - v.$f) * (u.$f - v.$f); )+
    vassert_eq("distance2", u.distance2(v), d2);
    vassert_eq("distance2 symmetric", u.distance2(v), v.distance2(u));
    let d = u.distance(v);
    vassert_eq("distance^2=distance2", d * d, d2);
    vassert("distance>=0", d >= R(0.0));
    vassert_eq("distance symmetric", u.distance(v), v.distance(u));
    vassert_eq("distance=magnitude(u-v)", u.distance(v), (u - v).magnitude());
    vcover("end");
}
fn $fnorm(v: $V<R>, m: R) {
    vassume(v.magnitude2() != R(0.0));
    let n = v.normalize();
    vassert_eq("|normalize|^2=1", n.magnitude2(), R(1.0));
    let k = R(1.0) / v.magnitude();
    vassert("k>0", k > R(0.0));
    vassert_eq("normalize=k*v", n, v * k);
    let t = v.normalize_to(m);
    vassert_eq("|normalize_to|^2=m^2", t.magnitude2(), m * m);
    vassert_eq("normalize_to=(m/|v|)*v", t, v * (m / v.magnitude()));
    if m > R(0.0) { vcover("m>0"); vassert("positive multiple", m / v.magnitude() > R(0.0)); }
    vcover("end");
}
fn $fproj(u: $V<R>, v: $V<R>) {
    vassume(v.magnitude2() != R(0.0));
    let p = u.project_on(v);
    // parallel to v: p = t v with t = u.v / v.v ; residual orthogonal
    let t = u.dot(v) / v.dot(v);
    vassert_eq("project_on=t*v", p, v * t);
    vassert_eq("(u-p).v=0", (u - p).dot(v), R(0.0));
    vcover("end");
}
}
}}
pub mod m1 { use super::*; metric!(Vector1 { x }, reg; c11_mag1, c11_norm1, c11_proj1); }
pub mod m2 { use super::*; metric!(Vector2 { x, y }, reg; c11_mag2, c11_norm2, c11_proj2); }
pub mod m3 { use super::*; metric!(Vector3 { x, y, z }, reg; c11_mag3, c11_norm3, c11_proj3); }
pub mod m4 { use super::*; metric!(Vector4 { x, y, z, w }, reg; c11_mag4, c11_norm4, c11_proj4); }

harnesses! { reg0;
// ---- scalar lemma functions (proved once for all reals; applied to the callers' terms) ----
fn c11_lemma_ratio(uu: R, vv: R, d: R, mu: R, mv: R) {
    vassume(d * d <= uu * vv); vassume_eq(mu * mu, uu); vassume_eq(mv * mv, vv); vassume(mu > R(0.0)); vassume(mv > R(0.0));
    vassert("ratio in [-1,1]", (d / (mu * mv) >= R(-1.0)) & (d / (mu * mv) <= R(1.0)));
    vcover("end");
}
fn c11_lemma_cos(mu: R, mv: R, d: R, c: R) {
    // c = cos(acos(d/(mu mv))) = d/(mu mv)
    vassume(mu > R(0.0)); vassume(mv > R(0.0)); vassume_eq(c, d / (mu * mv));
    vassert_eq("mu*mv*c=d", mu * mv * c, d);
    vcover("end");
}
fn c11_lemma_atan2(mu: R, mv: R, x: R, y: R, r: R, s: R, c: R) {
    // r = sqrt(x^2+y^2) from the atan2 contract, (mu mv)^2 = x^2 + y^2 (Lagrange), hence r = mu mv
    vassume(mu > R(0.0)); vassume(mv > R(0.0)); vassume(r > R(0.0));
    vassume_eq(r * r, x * x + y * y); vassume_eq(mu * mu * (mv * mv), x * x + y * y);
    vassume_eq(r * s, y); vassume_eq(r * c, x);
    vassert_eq("r=mu*mv", r, mu * mv);
    vassert_eq("mu*mv*c=x", mu * mv * c, x);
    vassert_eq("mu*mv*s=y", mu * mv * s, y);
    vcover("end");
}
fn c11_point_distance(p: Point3<R>, q: Point3<R>, a: Point2<R>, b: Point2<R>, s: Point1<R>, t: Point1<R>) {
    let d2 = (p.x - q.x) * (p.x - q.x) + (p.y - q.y) * (p.y - q.y) + (p.z - q.z) * (p.z - q.z);
    vassert_eq("distance2 p3", p.distance2(q), d2);
    let d = p.distance(q);
    vassert_eq("distance^2 p3", d * d, d2);
    vassert_eq("distance symmetric p3", p.distance(q), q.distance(p));
    vassert_eq("distance=|p-q| p3", p.distance(q), (p - q).magnitude());
    let e2 = (a.x - b.x) * (a.x - b.x) + (a.y - b.y) * (a.y - b.y);
    vassert_eq("distance2 p2", a.distance2(b), e2);
    vassert_eq("distance symmetric p2", a.distance(b), b.distance(a));
    vassert_eq("distance=|a-b| p2", a.distance(b), (a - b).magnitude());
    vassert_eq("distance2 p1", s.distance2(t), (s.x - t.x) * (s.x - t.x));
    vassert_eq("distance symmetric p1", s.distance(t), t.distance(s));
    vcover("end");
}
fn c11_quat_metric(p: Quaternion<R>, q: Quaternion<R>, m: R) {
    vassert_eq("magnitude2", p.magnitude2(), qnorm2(p));
    let mg = p.magnitude();
    vassert_eq("magnitude^2", mg * mg, qnorm2(p));
    vassert("magnitude>=0", mg >= R(0.0));
    // the difference written out component by component: the oracle must not go through the library's own `-`
    let d = Quaternion::from_sv(p.s - q.s, v3(p.v.x - q.v.x, p.v.y - q.v.y, p.v.z - q.v.z));
    vassert_eq("p - q", p - q, d);
    vassert_eq("distance2", p.distance2(q), qnorm2(d));
    vassert_eq("distance symmetric", p.distance(q), q.distance(p));
    vassert_eq("distance=|p-q|", p.distance(q), (p - q).magnitude());
    vassume(qnorm2(p) != R(0.0));
    vassert_eq("|normalize|^2=1", p.normalize().magnitude2(), R(1.0));
    vassert_eq("|normalize_to|^2=m^2", p.normalize_to(m).magnitude2(), m * m);
    vassert_eq("normalize=k*p", p.normalize(), p * (R(1.0) / p.magnitude()));
    vcover("end");
}
// generic angle (acos form): dimensions 1, 4 and quaternions use the trait default
fn c11_angle4(u: Vector4<R>, v: Vector4<R>) {
    vassume(u.magnitude2() != R(0.0)); vassume(v.magnitude2() != R(0.0));
    // proof script: Lagrange identity => Cauchy-Schwarz => the acos argument is in [-1,1]
    let (a, b) = (va4(u), va4(v));
    let mut lag = R(0.0);
    let mut i = 0; while i < 4 { let mut j = i + 1; while j < 4 { let t = a[i] * b[j] - a[j] * b[i]; lag = lag + t * t; j += 1; } i += 1; }
    let (uu, vv, d) = (dot4(u, u), dot4(v, v), dot4(u, v));
    vlemma_eq("lagrange identity", uu * vv - d * d, lag);
    vlemma("cauchy-schwarz", d * d <= uu * vv);
    let (mu, mv) = (u.magnitude(), v.magnitude());
    vlemma("mu>0", mu > R(0.0)); vlemma("mv>0", mv > R(0.0));
    c11_lemma_ratio(uu, vv, d, mu, mv);
    let th = u.angle(v);
    vassert("angle in [0,pi]", (th.0 >= R(0.0)) & (th.0 <= R(std::f64::consts::PI)));
    vlemma_eq("cos(acos t)=t", Angle::cos(th), d / (mu * mv));
    c11_lemma_cos(mu, mv, d, Angle::cos(th));
    vassert_eq("|u||v|cos=u.v", mu * mv * Angle::cos(th), d);
    vassert_eq("symmetric", u.angle(v), v.angle(u));
    vcover("end");
}
fn c11_angle1(u: Vector1<R>, v: Vector1<R>) {
    vassume(u.magnitude2() != R(0.0)); vassume(v.magnitude2() != R(0.0));
    let th = u.angle(v);
    vassert("angle in [0,pi]", (th.0 >= R(0.0)) & (th.0 <= R(std::f64::consts::PI)));
    vassert_eq("|u||v|cos=u.v", u.magnitude() * v.magnitude() * Angle::cos(th), u.dot(v));
    vassert_eq("symmetric", u.angle(v), v.angle(u));
    vcover("end");
}
fn c11_angle_quat(u: Quaternion<R>, v: Quaternion<R>) {
    vassume(u.magnitude2() != R(0.0)); vassume(v.magnitude2() != R(0.0));
    let (a, b) = ([u.s, u.v.x, u.v.y, u.v.z], [v.s, v.v.x, v.v.y, v.v.z]);
    let mut lag = R(0.0);
    let mut i = 0; while i < 4 { let mut j = i + 1; while j < 4 { let t = a[i] * b[j] - a[j] * b[i]; lag = lag + t * t; j += 1; } i += 1; }
    let (uu, vv, d) = (qnorm2(u), qnorm2(v), qdot(u, v));
    vlemma_eq("lagrange identity", uu * vv - d * d, lag);
    vlemma("cauchy-schwarz", d * d <= uu * vv);
    let (mu, mv) = (u.magnitude(), v.magnitude());
    vlemma("mu>0", mu > R(0.0)); vlemma("mv>0", mv > R(0.0));
    c11_lemma_ratio(uu, vv, d, mu, mv);
    let th = u.angle(v);
    vassert("angle in [0,pi]", (th.0 >= R(0.0)) & (th.0 <= R(std::f64::consts::PI)));
    vlemma_eq("cos(acos t)=t", Angle::cos(th), d / (mu * mv));
    c11_lemma_cos(mu, mv, d, Angle::cos(th));
    vassert_eq("|u||v|cos=u.v", mu * mv * Angle::cos(th), d);
    vassert_eq("symmetric", u.angle(v), v.angle(u));
    vcover("end");
}
// 3-D override: atan2(|u x v|, u.v)
fn c11_angle3(u: Vector3<R>, v: Vector3<R>) {
    vassume(u.magnitude2() != R(0.0)); vassume(v.magnitude2() != R(0.0));
    let (mu, mv) = (u.magnitude(), v.magnitude());
    let x = u.dot(v); let y = u.cross(v).magnitude(); let r = (x * x + y * y).sqrt();
    let th = u.angle(v);
    vlemma("mu>0", mu > R(0.0)); vlemma("mv>0", mv > R(0.0));
    vlemma_eq("y^2=|uxv|^2", y * y, dot3(cross3(u, v), cross3(u, v)));
    vlemma_eq("lagrange", mu * mu * (mv * mv), x * x + y * y);
    vlemma("r>0", r > R(0.0));
    c11_lemma_atan2(mu, mv, x, y, r, Angle::sin(th), Angle::cos(th));
    vassert("angle in [0,pi]", (th.0 >= R(0.0)) & (th.0 <= R(std::f64::consts::PI)));
    vassert_eq("|u||v|cos=u.v", mu * mv * Angle::cos(th), u.dot(v));
    vassert_eq("|u||v|sin=|uxv|", mu * mv * Angle::sin(th), u.cross(v).magnitude());
    vassert_eq("symmetric", u.angle(v), v.angle(u));
    vcover("end");
}
// 2-D override: signed counter-clockwise angle from u to v
fn c11_angle2(u: Vector2<R>, v: Vector2<R>) {
    vassume(u.magnitude2() != R(0.0)); vassume(v.magnitude2() != R(0.0));
    let (mu, mv) = (u.magnitude(), v.magnitude());
    let x = u.dot(v); let y = u.x * v.y - u.y * v.x; let r = (x * x + y * y).sqrt();
    let th = u.angle(v);
    let pi = R(std::f64::consts::PI);
    vlemma("mu>0", mu > R(0.0)); vlemma("mv>0", mv > R(0.0));
    vlemma_eq("lagrange", mu * mu * (mv * mv), x * x + y * y);
    vlemma("r>0", r > R(0.0));
    c11_lemma_atan2(mu, mv, x, y, r, Angle::sin(th), Angle::cos(th));
    vassert("angle in [-pi,pi]", (th.0 >= -pi) & (th.0 <= pi));
    vassert_eq("|u||v|cos=u.v", mu * mv * Angle::cos(th), u.dot(v));
    vassert_eq("|u||v|sin=perp_dot", mu * mv * Angle::sin(th), u.perp_dot(v));
    if y > R(0.0) { vcover("ccw"); vassert("ccw => positive", th.0 > R(0.0)); }
    if y < R(0.0) { vcover("cw"); vassert("cw => negative", th.0 < R(0.0)); }
    vcover("end");
}
}
#[cfg(feature = "native")]
pub fn reg() -> Vec<(&'static str, crate::HarnessFn)> { let mut v = reg0(); v.extend(m1::reg()); v.extend(m2::reg()); v.extend(m3::reg()); v.extend(m4::reg()); v }
