//! C02 -- inverse, determinant, transpose.
use crate::util::*;
use crate::*;
use cgmath::*;

harnesses! { reg;
fn c02_det2(m: Matrix2<R>) { vassert_eq("det2=leibniz", m.determinant(), det2(a2(m))); vcover("end"); }
fn c02_det3(m: Matrix3<R>) { vassert_eq("det3=leibniz", m.determinant(), det3(a3(m))); vcover("end"); }
fn c02_det4(m: Matrix4<R>) { vassert_eq("det4=leibniz", m.determinant(), det4(a4(m))); vcover("end"); }
fn c02_inv4(m: Matrix4<R>) {
    match m.invert() {
        None => { vcover("none"); vassert_eq("none=>det0", det4(a4(m)), z()); }
        Some(n) => {
            vcover("some");
            vassert("some=>det!=0", det4(a4(m)) != z());
            vassert_eq("M*N=I", a4(m * n), ident_n::<4>());
            vassert_eq("N*M=I", a4(n * m), ident_n::<4>());
        }
    }
}
}
