//! C02 -- inverse, determinant, transpose, swaps.
use crate::util::*;
use crate::*;
use cgmath::*;

macro_rules! per_dim { ($n:literal, $M:ident, $V:ident, $am:ident, $av:ident, $det:ident, $reg:ident;
    $fdet:ident, $finv:ident, $fdetmul:ident, $ftr:ident, $fswap:ident, $fswape:ident, $frepl:ident) => {
harnesses! { $reg;
fn $fdet(m: $M<R>) {
    vassert_eq("det=leibniz", m.determinant(), $det($am(m)));
    vassert_eq("det(M^T)=det(M)", m.transpose().determinant(), $det($am(m)));
    vcover("end");
}
// invert(): None exactly when det = 0 (the only case split, so "tiny but non-zero" is on the Some path)
fn $finv(m: $M<R>) {
    match m.invert() {
        None => { vcover("none"); vassert_eq("none=>det0", $det($am(m)), z()); }
        Some(n) => {
            vcover("some");
            vassert("some=>det!=0", $det($am(m)) != z());
            vassert_eq("M*N=I", $am(m * n), ident_n::<$n>());
            vassert_eq("N*M=I", $am(n * m), ident_n::<$n>());
        }
    }
}
fn $fdetmul(a: $M<R>, b: $M<R>) {
    vassert_eq("det(AB)=det(A)det(B)", (a * b).determinant(), $det($am(a)) * $det($am(b)));
    vcover("end");
}
fn $ftr(a: $M<R>, b: $M<R>) {
    vassert_eq("transpose involution", a.transpose().transpose(), a);
    vassert_eq("(AB)^T=B^T A^T", (a * b).transpose(), b.transpose() * a.transpose());
    let mut t = a; t.transpose_self();
    vassert_eq("transpose_self=transpose", t, a.transpose());
    vassert_eq("transpose=oracle", $am(a.transpose()), transpose_n($am(a)));
    vcover("end");
}
// symbolic indices: the executor forks over every in-range pair
fn $fswap(m: $M<R>, i: usize, j: usize) {
    vassume(i < $n); vassume(j < $n);
    let a = $am(m);
    let mut r = m; r.swap_rows(i, j);
    let mut c = m; c.swap_columns(i, j);
    let ra = $am(r); let ca = $am(c);
    let mut cc = 0; while cc < $n { let mut rr = 0; while rr < $n {
        let sr = if rr == i { j } else if rr == j { i } else { rr };
        let sc = if cc == i { j } else if cc == j { i } else { cc };
        vassert_eq("swap_rows", ra[cc][rr], a[cc][sr]);
        vassert_eq("swap_columns", ca[cc][rr], a[sc][rr]);
        rr += 1; } cc += 1; }
    vcover("end");
}
fn $fswape(m: $M<R>, ac: usize, ar: usize, bc: usize, br: usize) {
    vassume(ac < $n); vassume(ar < $n); vassume(bc < $n); vassume(br < $n);
    let a = $am(m);
    let mut e = m; e.swap_elements((ac, ar), (bc, br));
    let ea = $am(e);
    let mut cc = 0; while cc < $n { let mut rr = 0; while rr < $n {
        let want = if cc == ac && rr == ar { a[bc][br] } else if cc == bc && rr == br { a[ac][ar] } else { a[cc][rr] };
        vassert_eq("swap_elements", ea[cc][rr], want);
        rr += 1; } cc += 1; }
    vcover("end");
}
fn $frepl(m: $M<R>, k: usize, col: $V<R>) {
    vassume(k < $n);
    let a = $am(m);
    let mut e = m; let old = e.replace_col(k, col);
    vassert_eq("replace_col returns old", $av(old), a[k]);
    let ea = $am(e);
    let mut cc = 0; while cc < $n { vassert_eq("replace_col installs", ea[cc], if cc == k { $av(col) } else { a[cc] }); cc += 1; }
    vcover("end");
}
}
}}
pub mod d2 { use super::*; per_dim!(2, Matrix2, Vector2, a2, va2, det2, reg; c02_det2, c02_inv2, c02_detmul2, c02_tr2, c02_swap2, c02_swape2, c02_repl2); }
pub mod d3 { use super::*; per_dim!(3, Matrix3, Vector3, a3, va3, det3, reg; c02_det3, c02_inv3, c02_detmul3, c02_tr3, c02_swap3, c02_swape3, c02_repl3); }
pub mod d4 { use super::*; per_dim!(4, Matrix4, Vector4, a4, va4, det4, reg; c02_det4, c02_inv4, c02_detmul4, c02_tr4, c02_swap4, c02_swape4, c02_repl4); }

harnesses! { reg0;
// inverse_transform() of a matrix used as a transform is the same inverse
fn c02_inverse_transform(m3: Matrix3<R>, m4: Matrix4<R>) {
    vassert_eq("m3 as 2d", Transform::<Point2<R>>::inverse_transform(&m3), m3.invert());
    vassert_eq("m3 as 3d", Transform::<Point3<R>>::inverse_transform(&m3), m3.invert());
    vassert_eq("m4", Transform::<Point3<R>>::inverse_transform(&m4), m4.invert());
    vcover("end");
}
// is_invertible is decided by the determinant (links C18's predicate to the inverse)
fn c02_singular_rank1(u: Vector3<R>, v: Vector3<R>) {
    // an exactly singular matrix: outer product u v^T
    let m = Matrix3::from_cols(u * v.x, u * v.y, u * v.z);
    vassert("rank1 not invertible", m.invert().is_none());
    vcover("end");
}
}
#[cfg(feature = "native")]
pub fn reg() -> Vec<(&'static str, crate::HarnessFn)> { let mut v = reg0(); v.extend(d2::reg()); v.extend(d3::reg()); v.extend(d4::reg()); v }
