//! C13 -- Rad and Deg convert, normalise and evaluate trigonometry consistently.
use crate::util::*;
use crate::*;
use cgmath::*;
use num_traits::Float;

const PI: f64 = std::f64::consts::PI;

macro_rules! per_unit { ($reg:ident, $A:ident, $full:expr;
    $fnorm:ident, $fsigned:ident, $fopp:ident, $fbis:ident, $fturns:ident, $fops:ident) => {
harnesses! { $reg;
// BOUND (stated): the modular-arithmetic clauses are decided for angles within 64 turns of zero; the turn
// count is an unbounded integer in the fmod contract and no installed solver closes the unbounded query.
// normalize(a) in [0, T), differs from a by a whole number of turns
fn $fnorm(a: R) {
    let t = $A::<R>::full_turn();
    vassume((a <= R(64.0 * $full)) & (a >= R(-64.0 * $full)));
    vassert_eq("full turn", t.0, R($full));
    let n = $A(a).normalize();
    vassert("normalize in [0, T)", (n.0 >= R(0.0)) & (n.0 < t.0));
    vassert_eq("whole number of turns", (n.0 - a) % t.0, R(0.0));
    vassert_eq("idempotent", n.normalize(), n);
    vassert_eq("normalize(a + T) = normalize(a)", ($A(a) + t).normalize(), n);
    vcover("end");
}
fn $fsigned(a: R) {
    let t = $A::<R>::full_turn(); let h = $A::<R>::turn_div_2();
    vassume((a <= R(64.0 * $full)) & (a >= R(-64.0 * $full)));
    let n = $A(a).normalize_signed();
    vassert("normalize_signed in (-T/2, T/2]", (n.0 > -h.0) & (n.0 <= h.0));
    vassert_eq("whole number of turns", (n.0 - a) % t.0, R(0.0));
    vcover("end");
}
fn $fopp(a: R) {
    let h = $A::<R>::turn_div_2();
    vassume((a <= R(64.0 * $full)) & (a >= R(-64.0 * $full)));
    vassert_eq("opposite = normalize(a + T/2)", $A(a).opposite(), ($A(a) + h).normalize());
    vassert_eq("opposite twice = normalize", $A(a).opposite().opposite(), $A(a).normalize());
    vcover("end");
}
// bisect(a,b): the direction midway between a and b: equal and opposite signed distance, at most a quarter turn
fn $fbis(a: R, b: R) {
    let q = $A::<R>::turn_div_4();
    vassume((a <= R(8.0 * $full)) & (a >= R(-8.0 * $full))); vassume((b <= R(8.0 * $full)) & (b >= R(-8.0 * $full)));
    let r = $A(a).bisect($A(b));
    let d1 = (r - $A(a)).normalize_signed(); let d2 = (r - $A(b)).normalize_signed();
    vassert("bisect is normalised", (r.0 >= R(0.0)) & (r.0 < $A::<R>::full_turn().0));
    vassert("at most a quarter turn from a", (d1.0 <= q.0) & (d1.0 >= -q.0));
    vassert("at most a quarter turn from b", (d2.0 <= q.0) & (d2.0 >= -q.0));
    // equal distance on opposite sides (a half turn apart is its own mirror image)
    vassert("midway", (d1.0 == -d2.0) | ((d1.0 == q.0) & (d2.0 == q.0)));
    vcover("end");
}
fn $fturns() {
    let t = $A::<R>::full_turn();
    vassert_eq("turn_div_2 * 2", $A::<R>::turn_div_2() * R(2.0), t);
    vassert_eq("turn_div_3 * 3", $A::<R>::turn_div_3() * R(3.0), t);
    vassert_eq("turn_div_4 * 4", $A::<R>::turn_div_4() * R(4.0), t);
    vassert_eq("turn_div_6 * 6", $A::<R>::turn_div_6() * R(6.0), t);
    vassert_eq("zero", $A::<R>::zero().0, R(0.0));
    vcover("end");
}
fn $fops(a: R, b: R, c: R, k: R) {
    vassert_eq("a+b", ($A(a) + $A(b)).0, a + b); vassert_eq("a-b", ($A(a) - $A(b)).0, a - b); vassert_eq("-a", (-$A(a)).0, -a);
    vassert_eq("a*k", ($A(a) * k).0, a * k);
    let mut t = $A(a); t += $A(b); vassert_eq("a+=b", t.0, a + b);
    let mut t = $A(a); t -= $A(b); vassert_eq("a-=b", t.0, a - b);
    let mut t = $A(a); t *= k; vassert_eq("a*=k", t.0, a * k);
    let s1: $A<R> = [$A(a), $A(b), $A(c)].iter().sum(); let s2: $A<R> = [$A(a), $A(b), $A(c)].into_iter().sum();
    vassert_eq("sum of refs", s1.0, R(0.0) + a + b + c); vassert_eq("sum of values", s2.0, R(0.0) + a + b + c);
    vassume(k != R(0.0)); vassume(b != R(0.0));
    vassert_eq("a/k", ($A(a) / k).0, a / k); vassert_eq("a/b (ratio)", $A(a) / $A(b), a / b); vassert_eq("a%b", ($A(a) % $A(b)).0, a % b);
    let mut t = $A(a); t /= k; vassert_eq("a/=k", t.0, a / k);
    let mut t = $A(a); t %= $A(b); vassert_eq("a%=b", t.0, a % b);
    vcover("end");
}
}
}}
pub mod rad { use super::*; per_unit!(reg, Rad, 2.0 * PI; c13_rad_normalize, c13_rad_signed, c13_rad_opposite, c13_rad_bisect, c13_rad_turns, c13_rad_ops); }
pub mod deg { use super::*; per_unit!(reg, Deg, 360.0; c13_deg_normalize, c13_deg_signed, c13_deg_opposite, c13_deg_bisect, c13_deg_turns, c13_deg_ops); }

harnesses! { reg0;
// ---- native floats, bit-precise (FP mode): range membership for every finite f64 / f32
fn c13_fp_deg_f64(a: f64) {
    let n = Deg(a).normalize().0; vassert("normalize in [0, 360]", (n >= 0.0) & (n <= 360.0));
    let o = Deg(a).opposite().0; vassert("opposite in [0, 360]", (o >= 0.0) & (o <= 360.0));
    let s = Deg(a).normalize_signed().0; vassert("normalize_signed in [-180, 180]", (s >= -180.0) & (s <= 180.0));
    vcover("end");
}
fn c13_fp_rad_f64(a: f64) {
    let t = Rad::<f64>::full_turn().0; let h = Rad::<f64>::turn_div_2().0;
    let n = Rad(a).normalize().0; vassert("normalize in [0, T]", (n >= 0.0) & (n <= t));
    let o = Rad(a).opposite().0; vassert("opposite in [0, T]", (o >= 0.0) & (o <= t));
    let s = Rad(a).normalize_signed().0; vassert("normalize_signed in [-T/2, T/2]", (s >= -h) & (s <= h));
    vcover("end");
}
fn c13_fp_deg_f32(a: f32) {
    let n = Deg(a).normalize().0; vassert("normalize in [0, 360]", (n >= 0.0) & (n <= 360.0));
    let o = Deg(a).opposite().0; vassert("opposite in [0, 360]", (o >= 0.0) & (o <= 360.0));
    let s = Deg(a).normalize_signed().0; vassert("normalize_signed in [-180, 180]", (s >= -180.0) & (s <= 180.0));
    vcover("end");
}
fn c13_fp_rad_f32(a: f32) {
    let t = Rad::<f32>::full_turn().0; let h = Rad::<f32>::turn_div_2().0;
    let n = Rad(a).normalize().0; vassert("normalize in [0, T]", (n >= 0.0) & (n <= t));
    let o = Rad(a).opposite().0; vassert("opposite in [0, T]", (o >= 0.0) & (o <= t));
    let s = Rad(a).normalize_signed().0; vassert("normalize_signed in [-T/2, T/2]", (s >= -h) & (s <= h));
    vcover("end");
}
// ---- rounding-error model (ERR mode): unit round trips within 4 machine epsilons, and no intermediate leaves the
// normal finite range (the executor adds "every rounded intermediate is a normal finite float" to each obligation).
// Bounds: the widest ranges on which the statement can hold for code that multiplies by 180/pi: a radian value above
// MAX/57.3 has no finite degree measure, and below 2^-1000 (2^-110) a product may fall into the subnormals.
fn c13_err_f64(a: f64) {
    let (lo, hi) = (9.332636185032189e-302, 1.4044477616111843e306);        // 2^-1000, 2^1017
    vassume(((a >= lo) & (a <= hi)) | ((a <= -lo) & (a >= -hi)));
    vrel_err("Rad -> Deg -> Rad", Rad::from(Deg::from(Rad(a))).0, a, 4.0);
    vcover("end");
}
fn c13_err_deg_f64(a: f64) {
    let (lo, hi) = (9.332636185032189e-302, 8.98846567431158e307);          // 2^-1000, 2^1023
    vassume(((a >= lo) & (a <= hi)) | ((a <= -lo) & (a >= -hi)));
    vrel_err("Deg -> Rad -> Deg", Deg::from(Rad::from(Deg(a))).0, a, 4.0);
    vcover("end");
}
fn c13_err_f32(a: f32) {
    let (lo, hi) = (7.70372e-34f32, 2.658456e36f32);                        // 2^-110, 2^121
    vassume(((a >= lo) & (a <= hi)) | ((a <= -lo) & (a >= -hi)));
    vrel_err("Rad -> Deg -> Rad", Rad::from(Deg::from(Rad(a))).0, a, 4.0);
    vcover("end");
}
fn c13_err_deg_f32(a: f32) {
    let (lo, hi) = (7.70372e-34f32, 1.7014118e38f32);                       // 2^-110, 2^127
    vassume(((a >= lo) & (a <= hi)) | ((a <= -lo) & (a >= -hi)));
    vrel_err("Deg -> Rad -> Deg", Deg::from(Rad::from(Deg(a))).0, a, 4.0);
    vcover("end");
}
// conversions with pi symbolic: (180/pi)(pi/180) = 1 exactly, full turns correspond
fn c13_convert(a: R) {
    vassert_eq("Rad -> Deg -> Rad", Rad::from(Deg::from(Rad(a))).0, a);
    vassert_eq("Deg -> Rad -> Deg", Deg::from(Rad::from(Deg(a))).0, a);
    vassert_eq("full turn rad -> 360 deg", Deg::from(Rad::<R>::full_turn()).0, R(360.0));
    vassert_eq("full turn deg -> 2 pi rad", Rad::from(Deg::<R>::full_turn()).0, Rad::<R>::full_turn().0);
    vassert_eq("half turn", Deg::from(Rad::<R>::turn_div_2()).0, R(180.0));
    vassert_eq("deg = rad * 180/pi", Deg::from(Rad(a)).0 * Rad::<R>::turn_div_2().0, a * R(180.0));
    vcover("end");
}
// trigonometry goes through the radian measure; reciprocal functions; both units
fn c13_trig(a: R) {
    let ra = a * R(PI / 180.0);         // the radian measure of Deg(a), same constant as the conversion
    vassert_eq("Rad::sin", Angle::sin(Rad(a)), a.sin()); vassert_eq("Rad::cos", Angle::cos(Rad(a)), a.cos()); vassert_eq("Rad::tan", Angle::tan(Rad(a)), a.tan());
    vassert_eq("Deg::sin", Angle::sin(Deg(a)), ra.sin()); vassert_eq("Deg::cos", Angle::cos(Deg(a)), ra.cos()); vassert_eq("Deg::tan", Angle::tan(Deg(a)), ra.tan());
    vassert_eq("Rad::sin_cos", Angle::sin_cos(Rad(a)), (a.sin(), a.cos())); vassert_eq("Deg::sin_cos", Angle::sin_cos(Deg(a)), (ra.sin(), ra.cos()));
    vassert_eq("csc", Angle::csc(Rad(a)), R(1.0) / a.sin()); vassert_eq("sec", Angle::sec(Rad(a)), R(1.0) / a.cos()); vassert_eq("cot", Angle::cot(Rad(a)), R(1.0) / a.tan());
    vassert_eq("Deg csc", Angle::csc(Deg(a)), R(1.0) / ra.sin()); vassert_eq("Deg sec", Angle::sec(Deg(a)), R(1.0) / ra.cos()); vassert_eq("Deg cot", Angle::cot(Deg(a)), R(1.0) / ra.tan());
    vassert_eq("sin^2 + cos^2 = 1", Angle::sin(Deg(a)) * Angle::sin(Deg(a)) + Angle::cos(Deg(a)) * Angle::cos(Deg(a)), R(1.0));
    vcover("end");
}
fn c13_inverse_trig(u: R, v: R) {
    let k = R(180.0 / PI);
    vassert_eq("Rad::asin", Rad::<R>::asin(u).0, u.asin()); vassert_eq("Rad::acos", Rad::<R>::acos(u).0, u.acos());
    vassert_eq("Rad::atan", Rad::<R>::atan(u).0, u.atan()); vassert_eq("Rad::atan2", Rad::<R>::atan2(u, v).0, u.atan2(v));
    vassert_eq("Deg::asin", Deg::<R>::asin(u).0, u.asin() * k); vassert_eq("Deg::acos", Deg::<R>::acos(u).0, u.acos() * k);
    vassert_eq("Deg::atan", Deg::<R>::atan(u).0, u.atan() * k); vassert_eq("Deg::atan2", Deg::<R>::atan2(u, v).0, u.atan2(v) * k);
    vcover("end");
}
// principal values in the caller's unit (pi symbolic)
fn c13_inverse_ranges(u: R, v: R) {
    vassume((u >= R(-1.0)) & (u <= R(1.0)));
    let (s, c, t) = (Deg::<R>::asin(u), Deg::<R>::acos(u), Deg::<R>::atan(v));
    vassert("Deg::asin in [-90, 90]", (s.0 >= R(-90.0)) & (s.0 <= R(90.0)));
    vassert("Deg::acos in [0, 180]", (c.0 >= R(0.0)) & (c.0 <= R(180.0)));
    vassert("Deg::atan in (-90, 90)", (t.0 > R(-90.0)) & (t.0 < R(90.0)));
    vassert_eq("sin(asin u) = u (deg)", Angle::sin(s), u);
    vassert_eq("cos(acos u) = u (deg)", Angle::cos(c), u);
    let (rs, rc) = (Rad::<R>::asin(u), Rad::<R>::acos(u));
    vassert_eq("sin(asin u) = u (rad)", Angle::sin(rs), u);
    vassert_eq("cos(acos u) = u (rad)", Angle::cos(rc), u);
    let hp = Rad::<R>::turn_div_4().0;
    vassert("Rad::asin in [-pi/2, pi/2]", (rs.0 >= -hp) & (rs.0 <= hp));
    vassert("Rad::acos in [0, pi]", (rc.0 >= R(0.0)) & (rc.0 <= Rad::<R>::turn_div_2().0));
    vcover("end");
}
}
#[cfg(feature = "native")]
pub fn reg() -> Vec<(&'static str, crate::HarnessFn)> { let mut v = reg0(); v.extend(rad::reg()); v.extend(deg::reg()); v }
