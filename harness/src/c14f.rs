//! GENERATED from c14.rs by tools/gen_f32_twins.py: the same harnesses on the f32 instantiation (scalar R32) -- do not edit.
use crate::util32::*;
use crate::r32::R32;
use crate::*;
use cgmath::*;

macro_rules! lerp_h { ($name:ident, $T:ty) => {
    fn $name(a: $T, b: $T, t: R32) {
        vassert_eq("lerp = a + (b-a)t", a.lerp(b, t), a + (b - a) * t);
        vassert_eq("lerp(0) = a", a.lerp(b, R32(0.0)), a);
        vassert_eq("lerp(1) = b", a.lerp(b, R32(1.0)), b);
        vcover("end");
    }
}}

#[inline(always)] fn qeq14(a: Quaternion<R32>, b: Quaternion<R32>) -> bool { (a.s == b.s) & (a.v.x == b.v.x) & (a.v.y == b.v.y) & (a.v.z == b.v.z) }


harnesses! { reg;
// ---- scalar lemma functions
fn c14_f32_lemma_unit(m2: R32, n: R32, k: R32) {
    // k = 1/n with n = sqrt(m2) > 0  =>  m2 k^2 = 1
    vassume(n > R32(0.0)); vassume_eq(n * n, m2); vassume_eq(k, R32(1.0) / n);
    vassert_eq("m2 k^2 = 1", m2 * k * k, R32(1.0));
    vassert("k > 0", k > R32(0.0));
    vcover("end");
}
fn c14_f32_lemma_arc(al: R32, be: R32, d: R32) {
    // a unit non-negative combination r = al a + be b' of unit a, b' with a.b' = d in [0,1] is no further from either end
    vassume(al >= R32(0.0)); vassume(be >= R32(0.0)); vassume(d >= R32(0.0)); vassume(d <= R32(1.0));
    vassume_eq(al * al + be * be + R32(2.0) * al * be * d, R32(1.0));
    vassert("r.a >= d", al + be * d >= d);
    vassert("r.b' >= d", al * d + be >= d);
    vcover("end");
}
fn c14_f32_lemma_sqrt_sq(n: R32, ss: R32) {
    vassume(n >= R32(0.0)); vassume_eq(n * n, ss * ss); vassume(ss > R32(0.0));
    vassert_eq("n = S", n, ss);
    vcover("end");
}
fn c14_f32_lemma_expand(t: R32, k: R32, d: R32, m2: R32, al: R32, be: R32) {
    vassume_eq(m2, (R32(1.0) - t) * (R32(1.0) - t) + t * t + R32(2.0) * (R32(1.0) - t) * t * d);
    vassume_eq(al, (R32(1.0) - t) * k); vassume_eq(be, t * k);
    vassert_eq("m2 k^2 expanded", m2 * k * k, al * al + be * be + R32(2.0) * al * be * d);
    vcover("end");
}
// ---- nlerp
fn c14_f32_nlerp(a: Quaternion<R32>, b: Quaternion<R32>, t: R32) {
    vassume_eq(qnorm2(a), R32(1.0)); vassume_eq(qnorm2(b), R32(1.0)); vassume(t >= R32(0.0)); vassume(t <= R32(1.0));
    let r = a.nlerp(b, t);
    // b' = b or -b, whichever has non-negative dot product with a
    let mut bb = b; let mut d = a.dot(b);
    if d < R32(0.0) { vcover("flip"); bb = -b; d = -d; } else { vcover("no flip"); }
    vlemma_eq("a.b' = d", qdot(a, bb), d);
    vlemma_eq("|b'| = 1", qnorm2(bb), R32(1.0));
    vlemma_eq("|a-b'|^2 = 2 - 2d", qnorm2(a - bb), R32(2.0) - R32(2.0) * d);
    vlemma("d <= 1 (Cauchy-Schwarz for unit a, b')", d <= R32(1.0));
    let r0 = a * (R32(1.0) - t) + bb * t;
    let m2 = r0.magnitude2();
    vlemma_eq("|r0|^2 by bilinearity", m2, (R32(1.0) - t) * (R32(1.0) - t) + t * t + R32(2.0) * (R32(1.0) - t) * t * d);
    vlemma("|r0|^2 > 0", m2 > R32(0.0));
    let n = r0.magnitude(); let k = R32(1.0) / n;
    vlemma("|r0| > 0", n > R32(0.0));
    c14_f32_lemma_unit(m2, n, k);
    // in the plane of a and b', a non-negative combination of a and b' (= on the shorter arc), and unit
    vassert_eq("r = (a(1-t) + b't) k", r, r0 * k);
    let (al, be) = ((R32(1.0) - t) * k, t * k);
    vassert("coefficients >= 0", (al >= R32(0.0)) & (be >= R32(0.0)));
    c14_f32_lemma_scale4(r0.s, r0.v.x, r0.v.y, r0.v.z, k);
    vlemma_eq("|r|^2 = |r0|^2 k^2", qnorm2(r), m2 * k * k);
    vassert_eq("|r| = 1", qnorm2(r), R32(1.0));
    c14_f32_lemma_expand(t, k, d, m2, al, be);
    vlemma_eq("|r|^2 in al, be", qnorm2(r), al * al + be * be + R32(2.0) * al * be * d);
    vlemma_eq("r.a", qdot(r, a), al + be * d);
    vlemma_eq("r.b'", qdot(r, bb), al * d + be);
    c14_f32_lemma_arc(al, be, d);
    vassert("r.a >= a.b'", qdot(r, a) >= d);
    vassert("r.b' >= a.b'", qdot(r, bb) >= d);
    vcover("end");
}
fn c14_f32_nlerp_ends(a: Quaternion<R32>, b: Quaternion<R32>) {
    vassume_eq(qnorm2(a), R32(1.0)); vassume_eq(qnorm2(b), R32(1.0));
    vassert_eq("nlerp(0) = a", a.nlerp(b, R32(0.0)), a);
    let e = a.nlerp(b, R32(1.0));
    if a.dot(b) < R32(0.0) { vcover("flip"); vassert_eq("nlerp(1) = -b", e, -b); } else { vcover("no flip"); vassert_eq("nlerp(1) = b", e, b); }
    vcover("end");
}
// ---- slerp: scalar core of the constant-angular-speed argument, proved once for all reals
// S = sin(theta), d = cos(theta) = a.b', s = sin(t theta), c = cos(t theta), s1 = sin(theta - t theta)
fn c14_f32_lemma_slerp_core(ss: R32, d: R32, s: R32, c: R32, s1: R32) {
    vassume_eq(ss * ss + d * d, R32(1.0)); vassume_eq(s * s + c * c, R32(1.0)); vassume_eq(s1, ss * c - d * s);
    vassert_eq("|r0|^2 = S^2", s1 * s1 + s * s + R32(2.0) * s1 * s * d, ss * ss);
    vassert_eq("r0.a = S c", s1 + s * d, ss * c);
    vassert_eq("r0.b' = S cos(theta - t theta)", s1 * d + s, ss * (d * c + ss * s));
    vcover("end");
}
fn c14_f32_lemma_scale4(s: R32, x: R32, y: R32, z: R32, k: R32) {
    vassert_eq("|v k|^2 = |v|^2 k^2", (s * k) * (s * k) + (x * k) * (x * k) + (y * k) * (y * k) + (z * k) * (z * k), (s * s + x * x + y * y + z * z) * k * k);
    vcover("end");
}
fn c14_f32_lemma_slerp_div(n: R32, ss: R32, x: R32, c: R32) {
    // n = |r0| with n^2 = S^2, S > 0, n >= 0  =>  n = S and x / n = c when x = S c
    vassume(n >= R32(0.0)); vassume_eq(n * n, ss * ss); vassume(ss > R32(0.0)); vassume_eq(x, ss * c);
    vassert_eq("n = S", n, ss);
    vassert_eq("x * (1/n) = c", x * (R32(1.0) / n), c);
    vcover("end");
}
fn c14_f32_lemma_sin_pos(ss: R32, d: R32) {
    vassume(ss >= R32(0.0)); vassume_eq(ss * ss, R32(1.0) - d * d); vassume(d >= R32(0.0)); vassume(d < R32(1.0));
    vassert("S > 0", ss > R32(0.0));
    vcover("end");
}
fn c14_f32_lemma_bilinear(a: Quaternion<R32>, b: Quaternion<R32>, d: R32, s1: R32, s2: R32) {
    // for unit a, b with a.b = d:  |a s1 + b s2|^2 = s1^2 + s2^2 + 2 s1 s2 d, and the two projections
    vassume_eq(qnorm2(a), R32(1.0)); vassume_eq(qnorm2(b), R32(1.0)); vassume_eq(qdot(a, b), d);
    let r0 = a * s1 + b * s2;
    vassert_eq("|r0|^2 by bilinearity", qnorm2(r0), s1 * s1 + s2 * s2 + R32(2.0) * s1 * s2 * d);
    vassert_eq("r0.a by bilinearity", qdot(r0, a), s1 + s2 * d);
    vassert_eq("r0.b' by bilinearity", qdot(r0, b), s1 * d + s2);
    vcover("end");
}
fn c14_f32_slerp(a: Quaternion<R32>, b: Quaternion<R32>, t: R32) {
    vassume_eq(qnorm2(a), R32(1.0)); vassume_eq(qnorm2(b), R32(1.0)); vassume(t >= R32(0.0)); vassume(t <= R32(1.0));
    let r = a.slerp(b, t);
    let mut bb = b; let mut d = a.dot(b);
    if d < R32(0.0) { vcover("flip"); bb = -b; d = -d; } else { vcover("no flip"); }
    vlemma_eq("a.b' = d", qdot(a, bb), d);
    vlemma_eq("|b'| = 1", qnorm2(bb), R32(1.0));
    if (d > R32(0.9995)) && qeq14(r, a.nlerp(bb, t)) {
        // hand-over to nlerp, allowed only beyond 0.9995 (the 1e-5 rad clause for this path is outside the claim)
        vcover("nlerp path");
    } else {
        // |a.b| <= 0.9995: the exact formula is required.  Beyond it the exact formula is also allowed (the property
        // only bounds the error there), so a hand-over threshold moved *up* is not a violation -- except at d = 1,
        // where the exact formula is 0/0 and only nlerp's value (a itself) is right.
        vcover("acos path");
        vlemma("exact formula only for d < 1", d < R32(1.0));
        vlemma("d >= 0", d >= R32(0.0));
        // the angle, spelled plainly and with the domain clamp (the same number: d is already in [-1, 1])
        let dc = d.min(R32(1.0)).max(-R32(1.0));
        vlemma_eq("robust dot = d", dc, d);
        let theta = Rad::acos(d); let theta_c = Rad::acos(dc);
        vlemma_eq("acos(clamped d) = acos(d)", theta_c.0, theta.0);
        let (ss, cc) = (Rad::sin(theta), Rad::cos(theta));
        vlemma_eq("cos(theta) = d", cc, d);
        vlemma("sin(theta) >= 0", ss >= R32(0.0));
        vlemma_eq("sin^2 = 1 - d^2", ss * ss, R32(1.0) - d * d);
        c14_f32_lemma_sin_pos(ss, d);
        vlemma("sin(theta) > 0", ss > R32(0.0));
        let s1 = Rad::sin(theta * (R32(1.0) - t)); let s2 = Rad::sin(theta * t); let c2 = Rad::cos(theta * t);
        vlemma_eq("sin(theta - t theta)", s1, ss * c2 - d * s2);
        c14_f32_lemma_slerp_core(ss, d, s2, c2, s1);
        let r0 = a * s1 + bb * s2;
        c14_f32_lemma_bilinear(a, bb, d, s1, s2);
        vlemma_eq("|r0|^2", r0.magnitude2(), s1 * s1 + s2 * s2 + R32(2.0) * s1 * s2 * d);
        let n = r0.magnitude();
        c14_f32_lemma_slerp_div(n, ss, qdot(r0, a), c2);
        let k = R32(1.0) / n;
        vlemma("|r0| > 0", n > R32(0.0));
        c14_f32_lemma_unit(r0.magnitude2(), n, k);
        // the same construction from the clamped spelling of the angle: equal step by step (congruence), so that
        // whichever spelling the code uses, its result is one rewrite away from r0 k
        let s1c = Rad::sin(theta_c * (R32(1.0) - t)); let s2c = Rad::sin(theta_c * t);
        vlemma_eq("weights from the clamped angle", [s1c, s2c], [s1, s2]);
        let r0c = a * s1c + bb * s2c;
        vlemma_eq("sum from the clamped angle", r0c, r0);
        let nc = r0c.magnitude();
        vlemma_eq("norm from the clamped angle", nc, n);
        vlemma_eq("normalised, from the clamped angle", r0c * (R32(1.0) / nc), r0 * k);
        vassert_eq("r = r0 / |r0|", r, r0 * k);
        c14_f32_lemma_scale4(r0.s, r0.v.x, r0.v.y, r0.v.z, k);
        vlemma_eq("|r|^2 = |r0|^2 k^2", qnorm2(r), r0.magnitude2() * k * k);
        vassert_eq("|r| = 1", qnorm2(r), R32(1.0));
        vlemma_eq("r.a = (r0.a) k", qdot(r, a), qdot(r0, a) * k);
        // constant angular speed: the arc from a to r is t times the whole arc
        vassert_eq("r.a = cos(t theta)", qdot(r, a), c2);
    }
    vcover("end");
}
fn c14_f32_slerp_ends(a: Quaternion<R32>, b: Quaternion<R32>) {
    vassume_eq(qnorm2(a), R32(1.0)); vassume_eq(qnorm2(b), R32(1.0));
    let r0 = a.slerp(b, R32(0.0)); let r1 = a.slerp(b, R32(1.0));
    let mut bb = b; let mut d = a.dot(b);
    if d < R32(0.0) { vcover("flip"); bb = -b; d = -d; } else { vcover("no flip"); }
    vlemma_eq("|b'| = 1", qnorm2(bb), R32(1.0));
    if d > R32(0.9995) { vcover("nlerp path"); } else { vcover("acos path"); }
    if d < R32(1.0) {
        // facts about the exact formula (true for every d < 1, whichever path the code takes beyond 0.9995)
        let theta = Rad::acos(d.min(R32(1.0)).max(-R32(1.0)));
        vlemma_eq("robust dot = d", d.min(R32(1.0)).max(-R32(1.0)), d);
        let ss = Rad::sin(theta);
        vlemma_eq("cos(theta) = d", Rad::cos(theta), d);
        vlemma("sin(theta) >= 0", ss >= R32(0.0));
        vlemma_eq("sin^2 = 1 - d^2", ss * ss, R32(1.0) - d * d);
        vlemma("sin(theta) > 0", ss > R32(0.0));
        vlemma_eq("sin(0) = 0", Rad::sin(theta * R32(0.0)), R32(0.0));
        // both end points are (unit quaternion) * S normalised
        let n0 = (a * ss).magnitude(); let n1 = (bb * ss).magnitude();
        vlemma_eq("|a S|^2 = S^2", (a * ss).magnitude2(), ss * ss);
        vlemma_eq("|b' S|^2 = S^2", (bb * ss).magnitude2(), ss * ss);
        vlemma("|a S| >= 0", n0 >= R32(0.0)); vlemma_eq("|a S|^2", n0 * n0, ss * ss);
        c14_f32_lemma_sqrt_sq(n0, ss);
        vlemma_eq("|a S| = S", n0, ss);
        vlemma("|b' S| >= 0", n1 >= R32(0.0)); vlemma_eq("|b' S|^2", n1 * n1, ss * ss);
        c14_f32_lemma_sqrt_sq(n1, ss);
        vlemma_eq("|b' S| = S", n1, ss);
        vlemma_eq("S (1/S) = 1", ss * (R32(1.0) / ss), R32(1.0));
    }
    vassert_eq("slerp(0) = a", r0, a);
    vassert_eq("slerp(1) = b'", r1, bb);
    vcover("end");
}
}
