//! C18 -- approximate-equality and predicate methods test every component.
use crate::util::*;
use crate::*;
use approx::{AbsDiffEq, RelativeEq, UlpsEq};
use cgmath::*;
use num_traits::{Float, Zero};

#[inline(always)] fn deps() -> R { <R as AbsDiffEq>::default_epsilon() }
#[inline(always)] fn dulps() -> u32 { <R as UlpsEq>::default_max_ulps() }
#[inline(always)] fn ueq(a: R, b: R) -> bool { UlpsEq::ulps_eq(&a, &b, deps(), dulps()) }
// element comparison as each matrix type's own ulps_eq!(matrix, matrix) does it: with *that type's* default epsilon
// (the property does not fix its value; taking one type's epsilon as the oracle for another would tie the verdict on
// Matrix2 to a constant of Matrix4)
#[inline(always)] fn meq2(a: R, b: R) -> bool { UlpsEq::ulps_eq(&a, &b, <Matrix2<R> as AbsDiffEq>::default_epsilon(), <Matrix2<R> as UlpsEq>::default_max_ulps()) }
#[inline(always)] fn meq3(a: R, b: R) -> bool { UlpsEq::ulps_eq(&a, &b, <Matrix3<R> as AbsDiffEq>::default_epsilon(), <Matrix3<R> as UlpsEq>::default_max_ulps()) }
#[inline(always)] fn meq4(a: R, b: R) -> bool { UlpsEq::ulps_eq(&a, &b, <Matrix4<R> as AbsDiffEq>::default_epsilon(), <Matrix4<R> as UlpsEq>::default_max_ulps()) }

// component lists, in field order
#[inline(always)] fn c_v1(v: Vector1<R>) -> [R; 1] { [v.x] }
#[inline(always)] fn c_p1(v: Point1<R>) -> [R; 1] { [v.x] }
#[inline(always)] fn c_p2(v: Point2<R>) -> [R; 2] { [v.x, v.y] }
#[inline(always)] fn c_p3(v: Point3<R>) -> [R; 3] { [v.x, v.y, v.z] }
#[inline(always)] fn c_m2(m: Matrix2<R>) -> [R; 4] { [m.x.x, m.x.y, m.y.x, m.y.y] }
#[inline(always)] fn c_m3(m: Matrix3<R>) -> [R; 9] { [m.x.x, m.x.y, m.x.z, m.y.x, m.y.y, m.y.z, m.z.x, m.z.y, m.z.z] }
#[inline(always)] fn c_m4(m: Matrix4<R>) -> [R; 16] { [m.x.x, m.x.y, m.x.z, m.x.w, m.y.x, m.y.y, m.y.z, m.y.w, m.z.x, m.z.y, m.z.z, m.z.w, m.w.x, m.w.y, m.w.z, m.w.w] }
#[inline(always)] fn c_q(q: Quaternion<R>) -> [R; 4] { [q.v.x, q.v.y, q.v.z, q.s] }
#[inline(always)] fn c_rad(a: Rad<R>) -> [R; 1] { [a.0] }
#[inline(always)] fn c_deg(a: Deg<R>) -> [R; 1] { [a.0] }
#[inline(always)] fn c_euler(e: Euler<Rad<R>>) -> [R; 3] { [e.x.0, e.y.0, e.z.0] }
#[inline(always)] fn c_b2(b: Basis2<R>) -> [R; 4] { let m: &Matrix2<R> = b.as_ref(); c_m2(*m) }
#[inline(always)] fn c_b3(b: Basis3<R>) -> [R; 9] { let m: &Matrix3<R> = b.as_ref(); c_m3(*m) }
#[inline(always)] fn c_dq(d: Decomposed<Vector3<R>, Quaternion<R>>) -> [R; 8] { [d.scale, d.rot.v.x, d.rot.v.y, d.rot.v.z, d.rot.s, d.disp.x, d.disp.y, d.disp.z] }
#[inline(always)] fn c_db3(d: Decomposed<Vector3<R>, Basis3<R>>) -> [R; 13] { let m = c_b3(d.rot); [d.scale, m[0], m[1], m[2], m[3], m[4], m[5], m[6], m[7], m[8], d.disp.x, d.disp.y, d.disp.z] }
#[inline(always)] fn c_db2(d: Decomposed<Vector2<R>, Basis2<R>>) -> [R; 7] { let m = c_b2(d.rot); [d.scale, m[0], m[1], m[2], m[3], d.disp.x, d.disp.y] }

// each relation holds exactly when the scalar relation holds for every pair of corresponding components
// (one harness per type and relation: the && chain forks once per component)
macro_rules! rel_body { ($a:expr, $b:expr, $n:literal, $comps:ident, $id:literal, |$x:ident, $y:ident, $i:ident| $scalar:expr, |$p:ident, $q:ident| $whole:expr) => {{
    let ($p, $q) = ($a, $b);
    let ($x, $y) = ($comps($p), $comps($q));
    let mut w = true;
    let mut $i = 0; while $i < $n { w = w & $scalar; $i += 1; }
    vassert($id, $whole == w);
    vcover("end");
}}}

harnesses! { reg;

fn c18_abs_v1(a: Vector1<R>, b: Vector1<R>, eps: R, rel: R, ulps: u32) { rel_body!(a, b, 1, c_v1, "abs_diff_eq = all components", |x, y, i| AbsDiffEq::abs_diff_eq(&x[i], &y[i], eps), |a, b| a.abs_diff_eq(&b, eps)) }
fn c18_rel_v1(a: Vector1<R>, b: Vector1<R>, eps: R, rel: R, ulps: u32) { rel_body!(a, b, 1, c_v1, "relative_eq = all components", |x, y, i| RelativeEq::relative_eq(&x[i], &y[i], eps, rel), |a, b| a.relative_eq(&b, eps, rel)) }
fn c18_ulps_v1(a: Vector1<R>, b: Vector1<R>, eps: R, rel: R, ulps: u32) { rel_body!(a, b, 1, c_v1, "ulps_eq = all components", |x, y, i| UlpsEq::ulps_eq(&x[i], &y[i], eps, ulps), |a, b| a.ulps_eq(&b, eps, ulps)) }
fn c18_abs_v2(a: Vector2<R>, b: Vector2<R>, eps: R, rel: R, ulps: u32) { rel_body!(a, b, 2, va2, "abs_diff_eq = all components", |x, y, i| AbsDiffEq::abs_diff_eq(&x[i], &y[i], eps), |a, b| a.abs_diff_eq(&b, eps)) }
fn c18_rel_v2(a: Vector2<R>, b: Vector2<R>, eps: R, rel: R, ulps: u32) { rel_body!(a, b, 2, va2, "relative_eq = all components", |x, y, i| RelativeEq::relative_eq(&x[i], &y[i], eps, rel), |a, b| a.relative_eq(&b, eps, rel)) }
fn c18_ulps_v2(a: Vector2<R>, b: Vector2<R>, eps: R, rel: R, ulps: u32) { rel_body!(a, b, 2, va2, "ulps_eq = all components", |x, y, i| UlpsEq::ulps_eq(&x[i], &y[i], eps, ulps), |a, b| a.ulps_eq(&b, eps, ulps)) }
fn c18_abs_v3(a: Vector3<R>, b: Vector3<R>, eps: R, rel: R, ulps: u32) { rel_body!(a, b, 3, va3, "abs_diff_eq = all components", |x, y, i| AbsDiffEq::abs_diff_eq(&x[i], &y[i], eps), |a, b| a.abs_diff_eq(&b, eps)) }
fn c18_rel_v3(a: Vector3<R>, b: Vector3<R>, eps: R, rel: R, ulps: u32) { rel_body!(a, b, 3, va3, "relative_eq = all components", |x, y, i| RelativeEq::relative_eq(&x[i], &y[i], eps, rel), |a, b| a.relative_eq(&b, eps, rel)) }
fn c18_ulps_v3(a: Vector3<R>, b: Vector3<R>, eps: R, rel: R, ulps: u32) { rel_body!(a, b, 3, va3, "ulps_eq = all components", |x, y, i| UlpsEq::ulps_eq(&x[i], &y[i], eps, ulps), |a, b| a.ulps_eq(&b, eps, ulps)) }
fn c18_abs_v4(a: Vector4<R>, b: Vector4<R>, eps: R, rel: R, ulps: u32) { rel_body!(a, b, 4, va4, "abs_diff_eq = all components", |x, y, i| AbsDiffEq::abs_diff_eq(&x[i], &y[i], eps), |a, b| a.abs_diff_eq(&b, eps)) }
fn c18_rel_v4(a: Vector4<R>, b: Vector4<R>, eps: R, rel: R, ulps: u32) { rel_body!(a, b, 4, va4, "relative_eq = all components", |x, y, i| RelativeEq::relative_eq(&x[i], &y[i], eps, rel), |a, b| a.relative_eq(&b, eps, rel)) }
fn c18_ulps_v4(a: Vector4<R>, b: Vector4<R>, eps: R, rel: R, ulps: u32) { rel_body!(a, b, 4, va4, "ulps_eq = all components", |x, y, i| UlpsEq::ulps_eq(&x[i], &y[i], eps, ulps), |a, b| a.ulps_eq(&b, eps, ulps)) }
fn c18_abs_p1(a: Point1<R>, b: Point1<R>, eps: R, rel: R, ulps: u32) { rel_body!(a, b, 1, c_p1, "abs_diff_eq = all components", |x, y, i| AbsDiffEq::abs_diff_eq(&x[i], &y[i], eps), |a, b| a.abs_diff_eq(&b, eps)) }
fn c18_rel_p1(a: Point1<R>, b: Point1<R>, eps: R, rel: R, ulps: u32) { rel_body!(a, b, 1, c_p1, "relative_eq = all components", |x, y, i| RelativeEq::relative_eq(&x[i], &y[i], eps, rel), |a, b| a.relative_eq(&b, eps, rel)) }
fn c18_ulps_p1(a: Point1<R>, b: Point1<R>, eps: R, rel: R, ulps: u32) { rel_body!(a, b, 1, c_p1, "ulps_eq = all components", |x, y, i| UlpsEq::ulps_eq(&x[i], &y[i], eps, ulps), |a, b| a.ulps_eq(&b, eps, ulps)) }
fn c18_abs_p2(a: Point2<R>, b: Point2<R>, eps: R, rel: R, ulps: u32) { rel_body!(a, b, 2, c_p2, "abs_diff_eq = all components", |x, y, i| AbsDiffEq::abs_diff_eq(&x[i], &y[i], eps), |a, b| a.abs_diff_eq(&b, eps)) }
fn c18_rel_p2(a: Point2<R>, b: Point2<R>, eps: R, rel: R, ulps: u32) { rel_body!(a, b, 2, c_p2, "relative_eq = all components", |x, y, i| RelativeEq::relative_eq(&x[i], &y[i], eps, rel), |a, b| a.relative_eq(&b, eps, rel)) }
fn c18_ulps_p2(a: Point2<R>, b: Point2<R>, eps: R, rel: R, ulps: u32) { rel_body!(a, b, 2, c_p2, "ulps_eq = all components", |x, y, i| UlpsEq::ulps_eq(&x[i], &y[i], eps, ulps), |a, b| a.ulps_eq(&b, eps, ulps)) }
fn c18_abs_p3(a: Point3<R>, b: Point3<R>, eps: R, rel: R, ulps: u32) { rel_body!(a, b, 3, c_p3, "abs_diff_eq = all components", |x, y, i| AbsDiffEq::abs_diff_eq(&x[i], &y[i], eps), |a, b| a.abs_diff_eq(&b, eps)) }
fn c18_rel_p3(a: Point3<R>, b: Point3<R>, eps: R, rel: R, ulps: u32) { rel_body!(a, b, 3, c_p3, "relative_eq = all components", |x, y, i| RelativeEq::relative_eq(&x[i], &y[i], eps, rel), |a, b| a.relative_eq(&b, eps, rel)) }
fn c18_ulps_p3(a: Point3<R>, b: Point3<R>, eps: R, rel: R, ulps: u32) { rel_body!(a, b, 3, c_p3, "ulps_eq = all components", |x, y, i| UlpsEq::ulps_eq(&x[i], &y[i], eps, ulps), |a, b| a.ulps_eq(&b, eps, ulps)) }
fn c18_abs_m2(a: Matrix2<R>, b: Matrix2<R>, eps: R, rel: R, ulps: u32) { rel_body!(a, b, 4, c_m2, "abs_diff_eq = all components", |x, y, i| AbsDiffEq::abs_diff_eq(&x[i], &y[i], eps), |a, b| a.abs_diff_eq(&b, eps)) }
fn c18_rel_m2(a: Matrix2<R>, b: Matrix2<R>, eps: R, rel: R, ulps: u32) { rel_body!(a, b, 4, c_m2, "relative_eq = all components", |x, y, i| RelativeEq::relative_eq(&x[i], &y[i], eps, rel), |a, b| a.relative_eq(&b, eps, rel)) }
fn c18_ulps_m2(a: Matrix2<R>, b: Matrix2<R>, eps: R, rel: R, ulps: u32) { rel_body!(a, b, 4, c_m2, "ulps_eq = all components", |x, y, i| UlpsEq::ulps_eq(&x[i], &y[i], eps, ulps), |a, b| a.ulps_eq(&b, eps, ulps)) }
fn c18_abs_m3(a: Matrix3<R>, b: Matrix3<R>, eps: R, rel: R, ulps: u32) { rel_body!(a, b, 9, c_m3, "abs_diff_eq = all components", |x, y, i| AbsDiffEq::abs_diff_eq(&x[i], &y[i], eps), |a, b| a.abs_diff_eq(&b, eps)) }
fn c18_rel_m3(a: Matrix3<R>, b: Matrix3<R>, eps: R, rel: R, ulps: u32) { rel_body!(a, b, 9, c_m3, "relative_eq = all components", |x, y, i| RelativeEq::relative_eq(&x[i], &y[i], eps, rel), |a, b| a.relative_eq(&b, eps, rel)) }
fn c18_ulps_m3(a: Matrix3<R>, b: Matrix3<R>, eps: R, rel: R, ulps: u32) { rel_body!(a, b, 9, c_m3, "ulps_eq = all components", |x, y, i| UlpsEq::ulps_eq(&x[i], &y[i], eps, ulps), |a, b| a.ulps_eq(&b, eps, ulps)) }
fn c18_abs_m4(a: Matrix4<R>, b: Matrix4<R>, eps: R, rel: R, ulps: u32) { rel_body!(a, b, 16, c_m4, "abs_diff_eq = all components", |x, y, i| AbsDiffEq::abs_diff_eq(&x[i], &y[i], eps), |a, b| a.abs_diff_eq(&b, eps)) }
fn c18_rel_m4(a: Matrix4<R>, b: Matrix4<R>, eps: R, rel: R, ulps: u32) { rel_body!(a, b, 16, c_m4, "relative_eq = all components", |x, y, i| RelativeEq::relative_eq(&x[i], &y[i], eps, rel), |a, b| a.relative_eq(&b, eps, rel)) }
fn c18_ulps_m4(a: Matrix4<R>, b: Matrix4<R>, eps: R, rel: R, ulps: u32) { rel_body!(a, b, 16, c_m4, "ulps_eq = all components", |x, y, i| UlpsEq::ulps_eq(&x[i], &y[i], eps, ulps), |a, b| a.ulps_eq(&b, eps, ulps)) }
fn c18_abs_q(a: Quaternion<R>, b: Quaternion<R>, eps: R, rel: R, ulps: u32) { rel_body!(a, b, 4, c_q, "abs_diff_eq = all components", |x, y, i| AbsDiffEq::abs_diff_eq(&x[i], &y[i], eps), |a, b| a.abs_diff_eq(&b, eps)) }
fn c18_rel_q(a: Quaternion<R>, b: Quaternion<R>, eps: R, rel: R, ulps: u32) { rel_body!(a, b, 4, c_q, "relative_eq = all components", |x, y, i| RelativeEq::relative_eq(&x[i], &y[i], eps, rel), |a, b| a.relative_eq(&b, eps, rel)) }
fn c18_ulps_q(a: Quaternion<R>, b: Quaternion<R>, eps: R, rel: R, ulps: u32) { rel_body!(a, b, 4, c_q, "ulps_eq = all components", |x, y, i| UlpsEq::ulps_eq(&x[i], &y[i], eps, ulps), |a, b| a.ulps_eq(&b, eps, ulps)) }
fn c18_abs_rad(a: Rad<R>, b: Rad<R>, eps: R, rel: R, ulps: u32) { rel_body!(a, b, 1, c_rad, "abs_diff_eq = all components", |x, y, i| AbsDiffEq::abs_diff_eq(&x[i], &y[i], eps), |a, b| a.abs_diff_eq(&b, eps)) }
fn c18_rel_rad(a: Rad<R>, b: Rad<R>, eps: R, rel: R, ulps: u32) { rel_body!(a, b, 1, c_rad, "relative_eq = all components", |x, y, i| RelativeEq::relative_eq(&x[i], &y[i], eps, rel), |a, b| a.relative_eq(&b, eps, rel)) }
fn c18_ulps_rad(a: Rad<R>, b: Rad<R>, eps: R, rel: R, ulps: u32) { rel_body!(a, b, 1, c_rad, "ulps_eq = all components", |x, y, i| UlpsEq::ulps_eq(&x[i], &y[i], eps, ulps), |a, b| a.ulps_eq(&b, eps, ulps)) }
fn c18_abs_deg(a: Deg<R>, b: Deg<R>, eps: R, rel: R, ulps: u32) { rel_body!(a, b, 1, c_deg, "abs_diff_eq = all components", |x, y, i| AbsDiffEq::abs_diff_eq(&x[i], &y[i], eps), |a, b| a.abs_diff_eq(&b, eps)) }
fn c18_rel_deg(a: Deg<R>, b: Deg<R>, eps: R, rel: R, ulps: u32) { rel_body!(a, b, 1, c_deg, "relative_eq = all components", |x, y, i| RelativeEq::relative_eq(&x[i], &y[i], eps, rel), |a, b| a.relative_eq(&b, eps, rel)) }
fn c18_ulps_deg(a: Deg<R>, b: Deg<R>, eps: R, rel: R, ulps: u32) { rel_body!(a, b, 1, c_deg, "ulps_eq = all components", |x, y, i| UlpsEq::ulps_eq(&x[i], &y[i], eps, ulps), |a, b| a.ulps_eq(&b, eps, ulps)) }
fn c18_abs_euler(a: Euler<Rad<R>>, b: Euler<Rad<R>>, eps: R, rel: R, ulps: u32) { rel_body!(a, b, 3, c_euler, "abs_diff_eq = all components", |x, y, i| AbsDiffEq::abs_diff_eq(&x[i], &y[i], eps), |a, b| a.abs_diff_eq(&b, eps)) }
fn c18_rel_euler(a: Euler<Rad<R>>, b: Euler<Rad<R>>, eps: R, rel: R, ulps: u32) { rel_body!(a, b, 3, c_euler, "relative_eq = all components", |x, y, i| RelativeEq::relative_eq(&x[i], &y[i], eps, rel), |a, b| a.relative_eq(&b, eps, rel)) }
fn c18_ulps_euler(a: Euler<Rad<R>>, b: Euler<Rad<R>>, eps: R, rel: R, ulps: u32) { rel_body!(a, b, 3, c_euler, "ulps_eq = all components", |x, y, i| UlpsEq::ulps_eq(&x[i], &y[i], eps, ulps), |a, b| a.ulps_eq(&b, eps, ulps)) }
fn c18_abs_dq(a: Decomposed<Vector3<R>, Quaternion<R>>, b: Decomposed<Vector3<R>, Quaternion<R>>, eps: R, rel: R, ulps: u32) { rel_body!(a, b, 8, c_dq, "abs_diff_eq = all components", |x, y, i| AbsDiffEq::abs_diff_eq(&x[i], &y[i], eps), |a, b| a.abs_diff_eq(&b, eps)) }
fn c18_rel_dq(a: Decomposed<Vector3<R>, Quaternion<R>>, b: Decomposed<Vector3<R>, Quaternion<R>>, eps: R, rel: R, ulps: u32) { rel_body!(a, b, 8, c_dq, "relative_eq = all components", |x, y, i| RelativeEq::relative_eq(&x[i], &y[i], eps, rel), |a, b| a.relative_eq(&b, eps, rel)) }
fn c18_ulps_dq(a: Decomposed<Vector3<R>, Quaternion<R>>, b: Decomposed<Vector3<R>, Quaternion<R>>, eps: R, rel: R, ulps: u32) { rel_body!(a, b, 8, c_dq, "ulps_eq = all components", |x, y, i| UlpsEq::ulps_eq(&x[i], &y[i], eps, ulps), |a, b| a.ulps_eq(&b, eps, ulps)) }
fn c18_abs_basis2(ta: R, tb: R, eps: R, rel: R, ulps: u32) { let (p, q): (Basis2<R>, Basis2<R>) = (Rotation2::from_angle(Rad(ta)), Rotation2::from_angle(Rad(tb))); rel_body!(p, q, 4, c_b2, "abs_diff_eq = all components", |x, y, i| AbsDiffEq::abs_diff_eq(&x[i], &y[i], eps), |a, b| a.abs_diff_eq(&b, eps)) }
fn c18_abs_basis3(qa: Quaternion<R>, qb: Quaternion<R>, eps: R, rel: R, ulps: u32) { let (p, q) = (Basis3::from_quaternion(&qa), Basis3::from_quaternion(&qb)); rel_body!(p, q, 9, c_b3, "abs_diff_eq = all components", |x, y, i| AbsDiffEq::abs_diff_eq(&x[i], &y[i], eps), |a, b| a.abs_diff_eq(&b, eps)) }
fn c18_abs_db3(sa: R, qa: Quaternion<R>, da: Vector3<R>, sb: R, qb: Quaternion<R>, db: Vector3<R>, eps: R, rel: R, ulps: u32) {
    let p: Decomposed<Vector3<R>, Basis3<R>> = Decomposed { scale: sa, rot: Basis3::from_quaternion(&qa), disp: da };
    let q: Decomposed<Vector3<R>, Basis3<R>> = Decomposed { scale: sb, rot: Basis3::from_quaternion(&qb), disp: db };
    rel_body!(p, q, 13, c_db3, "abs_diff_eq = all components", |x, y, i| AbsDiffEq::abs_diff_eq(&x[i], &y[i], eps), |a, b| a.abs_diff_eq(&b, eps)) }
fn c18_abs_db2(sa: R, ta: R, da: Vector2<R>, sb: R, tb: R, db: Vector2<R>, eps: R, rel: R, ulps: u32) {
    let p: Decomposed<Vector2<R>, Basis2<R>> = Decomposed { scale: sa, rot: Rotation2::from_angle(Rad(ta)), disp: da };
    let q: Decomposed<Vector2<R>, Basis2<R>> = Decomposed { scale: sb, rot: Rotation2::from_angle(Rad(tb)), disp: db };
    rel_body!(p, q, 7, c_db2, "abs_diff_eq = all components", |x, y, i| AbsDiffEq::abs_diff_eq(&x[i], &y[i], eps), |a, b| a.abs_diff_eq(&b, eps)) }
fn c18_rel_basis2(ta: R, tb: R, eps: R, rel: R, ulps: u32) { let (p, q): (Basis2<R>, Basis2<R>) = (Rotation2::from_angle(Rad(ta)), Rotation2::from_angle(Rad(tb))); rel_body!(p, q, 4, c_b2, "relative_eq = all components", |x, y, i| RelativeEq::relative_eq(&x[i], &y[i], eps, rel), |a, b| a.relative_eq(&b, eps, rel)) }
fn c18_rel_basis3(qa: Quaternion<R>, qb: Quaternion<R>, eps: R, rel: R, ulps: u32) { let (p, q) = (Basis3::from_quaternion(&qa), Basis3::from_quaternion(&qb)); rel_body!(p, q, 9, c_b3, "relative_eq = all components", |x, y, i| RelativeEq::relative_eq(&x[i], &y[i], eps, rel), |a, b| a.relative_eq(&b, eps, rel)) }
fn c18_rel_db3(sa: R, qa: Quaternion<R>, da: Vector3<R>, sb: R, qb: Quaternion<R>, db: Vector3<R>, eps: R, rel: R, ulps: u32) {
    let p: Decomposed<Vector3<R>, Basis3<R>> = Decomposed { scale: sa, rot: Basis3::from_quaternion(&qa), disp: da };
    let q: Decomposed<Vector3<R>, Basis3<R>> = Decomposed { scale: sb, rot: Basis3::from_quaternion(&qb), disp: db };
    rel_body!(p, q, 13, c_db3, "relative_eq = all components", |x, y, i| RelativeEq::relative_eq(&x[i], &y[i], eps, rel), |a, b| a.relative_eq(&b, eps, rel)) }
fn c18_rel_db2(sa: R, ta: R, da: Vector2<R>, sb: R, tb: R, db: Vector2<R>, eps: R, rel: R, ulps: u32) {
    let p: Decomposed<Vector2<R>, Basis2<R>> = Decomposed { scale: sa, rot: Rotation2::from_angle(Rad(ta)), disp: da };
    let q: Decomposed<Vector2<R>, Basis2<R>> = Decomposed { scale: sb, rot: Rotation2::from_angle(Rad(tb)), disp: db };
    rel_body!(p, q, 7, c_db2, "relative_eq = all components", |x, y, i| RelativeEq::relative_eq(&x[i], &y[i], eps, rel), |a, b| a.relative_eq(&b, eps, rel)) }
fn c18_ulps_basis2(ta: R, tb: R, eps: R, rel: R, ulps: u32) { let (p, q): (Basis2<R>, Basis2<R>) = (Rotation2::from_angle(Rad(ta)), Rotation2::from_angle(Rad(tb))); rel_body!(p, q, 4, c_b2, "ulps_eq = all components", |x, y, i| UlpsEq::ulps_eq(&x[i], &y[i], eps, ulps), |a, b| a.ulps_eq(&b, eps, ulps)) }
fn c18_ulps_basis3(qa: Quaternion<R>, qb: Quaternion<R>, eps: R, rel: R, ulps: u32) { let (p, q) = (Basis3::from_quaternion(&qa), Basis3::from_quaternion(&qb)); rel_body!(p, q, 9, c_b3, "ulps_eq = all components", |x, y, i| UlpsEq::ulps_eq(&x[i], &y[i], eps, ulps), |a, b| a.ulps_eq(&b, eps, ulps)) }
fn c18_ulps_db3(sa: R, qa: Quaternion<R>, da: Vector3<R>, sb: R, qb: Quaternion<R>, db: Vector3<R>, eps: R, rel: R, ulps: u32) {
    let p: Decomposed<Vector3<R>, Basis3<R>> = Decomposed { scale: sa, rot: Basis3::from_quaternion(&qa), disp: da };
    let q: Decomposed<Vector3<R>, Basis3<R>> = Decomposed { scale: sb, rot: Basis3::from_quaternion(&qb), disp: db };
    rel_body!(p, q, 13, c_db3, "ulps_eq = all components", |x, y, i| UlpsEq::ulps_eq(&x[i], &y[i], eps, ulps), |a, b| a.ulps_eq(&b, eps, ulps)) }
fn c18_ulps_db2(sa: R, ta: R, da: Vector2<R>, sb: R, tb: R, db: Vector2<R>, eps: R, rel: R, ulps: u32) {
    let p: Decomposed<Vector2<R>, Basis2<R>> = Decomposed { scale: sa, rot: Rotation2::from_angle(Rad(ta)), disp: da };
    let q: Decomposed<Vector2<R>, Basis2<R>> = Decomposed { scale: sb, rot: Rotation2::from_angle(Rad(tb)), disp: db };
    rel_body!(p, q, 7, c_db2, "ulps_eq = all components", |x, y, i| UlpsEq::ulps_eq(&x[i], &y[i], eps, ulps), |a, b| a.ulps_eq(&b, eps, ulps)) }
fn c18_abs_diff_ne(a: Matrix3<R>, b: Matrix3<R>, q: Quaternion<R>, p: Quaternion<R>, eps: R) {
    vassert("m3 abs_diff_ne = !abs_diff_eq", a.abs_diff_ne(&b, eps) == !a.abs_diff_eq(&b, eps));
    vassert("q abs_diff_ne = !abs_diff_eq", q.abs_diff_ne(&p, eps) == !q.abs_diff_eq(&p, eps));
    vcover("end");
}
// reflexive and symmetric (from the scalar contract)
fn c18_reflexive(a: Matrix2<R>, q: Quaternion<R>, eps: R, ulps: u32) {
    vassume(eps >= R(0.0));
    vassert("abs_diff_eq reflexive", a.abs_diff_eq(&a, eps));
    vassert("ulps_eq reflexive", a.ulps_eq(&a, eps, ulps));
    vassert("relative_eq reflexive", q.relative_eq(&q, eps, eps));
    vcover("end");
}
fn c18_symmetric_abs(a: Vector3<R>, b: Vector3<R>, eps: R) { vassert("abs_diff_eq symmetric", a.abs_diff_eq(&b, eps) == b.abs_diff_eq(&a, eps)); vcover("end"); }
fn c18_symmetric_ulps(q: Vector3<R>, p: Vector3<R>, eps: R, ulps: u32) { vassert("ulps_eq symmetric", q.ulps_eq(&p, eps, ulps) == p.ulps_eq(&q, eps, ulps)); vcover("end"); }
fn c18_symmetric_rel(q: Vector3<R>, p: Vector3<R>, eps: R, rel: R) { vassert("relative_eq symmetric", q.relative_eq(&p, eps, rel) == p.relative_eq(&q, eps, rel)); vcover("end"); }
// ---- is_finite: exactly when every component is finite
fn c18_is_finite_v1(v: Vector1<R>) { vassert("v1", v.is_finite() == v.x.is_finite()); vcover("end"); }
fn c18_is_finite_v2(v: Vector2<R>) { vassert("v2", v.is_finite() == (v.x.is_finite() & v.y.is_finite())); vcover("end"); }
fn c18_is_finite_v3(v: Vector3<R>) { vassert("v3", v.is_finite() == (v.x.is_finite() & v.y.is_finite() & v.z.is_finite())); vcover("end"); }
fn c18_is_finite_v4(v: Vector4<R>) { vassert("v4", v.is_finite() == (v.x.is_finite() & v.y.is_finite() & v.z.is_finite() & v.w.is_finite())); vcover("end"); }
fn c18_is_finite_p(p1: Point1<R>, p2: Point2<R>) { vassert("p1", p1.is_finite() == p1.x.is_finite()); vassert("p2", p2.is_finite() == (p2.x.is_finite() & p2.y.is_finite())); vcover("end"); }
fn c18_is_finite_p3(p3: Point3<R>) { vassert("p3", p3.is_finite() == (p3.x.is_finite() & p3.y.is_finite() & p3.z.is_finite())); vcover("end"); }
fn c18_is_finite_q(q: Quaternion<R>) { vassert("q", q.is_finite() == (q.v.x.is_finite() & q.v.y.is_finite() & q.v.z.is_finite() & q.s.is_finite())); vcover("end"); }
fn c18_is_finite_m2(m: Matrix2<R>) { let a = c_m2(m); let mut w = true; let mut i = 0; while i < 4 { w = w & a[i].is_finite(); i += 1; } vassert("m2", m.is_finite() == w); vcover("end"); }
fn c18_is_finite_m3(m: Matrix3<R>) { let a = c_m3(m); let mut w = true; let mut i = 0; while i < 9 { w = w & a[i].is_finite(); i += 1; } vassert("m3", m.is_finite() == w); vcover("end"); }
fn c18_is_finite_m4(m: Matrix4<R>) { let a = c_m4(m); let mut w = true; let mut i = 0; while i < 16 { w = w & a[i].is_finite(); i += 1; } vassert("m4", m.is_finite() == w); vcover("end"); }
// ---- is_zero: vectors compare exactly, matrices / quaternions / angles ulps-compare every component with 0
fn c18_is_zero_v(v2: Vector2<R>, v3_: Vector3<R>) {
    let o = R(0.0);
    vassert("v2", v2.is_zero() == ((v2.x == o) & (v2.y == o)));
    vassert("v3", v3_.is_zero() == ((v3_.x == o) & (v3_.y == o) & (v3_.z == o)));
    vcover("end");
}
fn c18_is_zero_v4(v4: Vector4<R>) { let o = R(0.0); vassert("v4", v4.is_zero() == ((v4.x == o) & (v4.y == o) & (v4.z == o) & (v4.w == o))); vcover("end"); }
// The same clause with every arithmetic operation uninterpreted (UF mode, bit-exact native replay on extreme inputs):
// a vector's is_zero may not depend on a product or sum of components (which underflows or overflows in floating point
// and wraps for integers) -- it is true exactly when each component compares equal to zero.
fn c18_uf_is_zero_v(v1: Vector1<R>, v2: Vector2<R>, v3_: Vector3<R>, v4: Vector4<R>) {
    let o = R(0.0);
    vassert("v1", v1.is_zero() == (v1.x == o));
    vassert("v2", v2.is_zero() == ((v2.x == o) & (v2.y == o)));
    vassert("v3", v3_.is_zero() == ((v3_.x == o) & (v3_.y == o) & (v3_.z == o)));
    vassert("v4", v4.is_zero() == ((v4.x == o) & (v4.y == o) & (v4.z == o) & (v4.w == o)));
    vcover("end");
}
fn c18_is_zero_q(q: Quaternion<R>, a: Rad<R>, d: Deg<R>) {
    let o = R(0.0);
    vassert("rad", a.is_zero() == ueq(a.0, o));
    vassert("deg", d.is_zero() == ueq(d.0, o));
    vassert("q", q.is_zero() == (ueq(q.v.x, o) & ueq(q.v.y, o) & ueq(q.v.z, o) & ueq(q.s, o)));
    vcover("end");
}
// matrices compare with their own default tolerance (epsilon 1e-6, the scalar's max ulps)
fn c18_is_zero_m2(m: Matrix2<R>) { let y = c_m2(m); let mut w = true; let mut i = 0; while i < 4 { w = w & meq2(y[i], R(0.0)); i += 1; } vassert("m2", m.is_zero() == w); vcover("end"); }
fn c18_is_zero_m3(m: Matrix3<R>) { let y = c_m3(m); let mut w = true; let mut i = 0; while i < 9 { w = w & meq3(y[i], R(0.0)); i += 1; } vassert("m3", m.is_zero() == w); vcover("end"); }
fn c18_is_zero_m4(m: Matrix4<R>) { let y = c_m4(m); let mut w = true; let mut i = 0; while i < 16 { w = w & meq4(y[i], R(0.0)); i += 1; } vassert("m4", m.is_zero() == w); vcover("end"); }
// ---- matrix predicates
fn c18_is_identity2(m: Matrix2<R>) { let a = a2(m); let (o, i) = (R(0.0), R(1.0)); vassert("is_identity", m.is_identity() == (meq2(a[0][0], i) & meq2(a[0][1], o) & meq2(a[1][0], o) & meq2(a[1][1], i))); vcover("end"); }
fn c18_is_identity3(m: Matrix3<R>) { let a = a3(m); let mut w = true; let mut c = 0; while c < 3 { let mut r = 0; while r < 3 { w = w & meq3(a[c][r], if c == r { R(1.0) } else { R(0.0) }); r += 1; } c += 1; } vassert("is_identity", m.is_identity() == w); vcover("end"); }
fn c18_is_identity4(m: Matrix4<R>) { let a = a4(m); let mut w = true; let mut c = 0; while c < 4 { let mut r = 0; while r < 4 { w = w & meq4(a[c][r], if c == r { R(1.0) } else { R(0.0) }); r += 1; } c += 1; } vassert("is_identity", m.is_identity() == w); vcover("end"); }
fn c18_is_diagonal2(m: Matrix2<R>) { let a = a2(m); let o = R(0.0); vassert("is_diagonal", m.is_diagonal() == (ueq(a[0][1], o) & ueq(a[1][0], o))); vcover("end"); }
fn c18_is_diagonal3(m: Matrix3<R>) { let a = a3(m); let mut w = true; let mut c = 0; while c < 3 { let mut r = 0; while r < 3 { if c != r { w = w & ueq(a[c][r], R(0.0)); } r += 1; } c += 1; } vassert("is_diagonal", m.is_diagonal() == w); vcover("end"); }
fn c18_is_diagonal4(m: Matrix4<R>) { let a = a4(m); let mut w = true; let mut c = 0; while c < 4 { let mut r = 0; while r < 4 { if c != r { w = w & ueq(a[c][r], R(0.0)); } r += 1; } c += 1; } vassert("is_diagonal", m.is_diagonal() == w); vcover("end"); }
fn c18_is_symmetric2(m: Matrix2<R>) { let a = a2(m); vassert("is_symmetric", m.is_symmetric() == (ueq(a[0][1], a[1][0]) & ueq(a[1][0], a[0][1]))); vcover("end"); }
fn c18_is_symmetric3(m: Matrix3<R>) { let a = a3(m); let mut w = true; let mut c = 0; while c < 3 { let mut r = 0; while r < 3 { if c != r { w = w & ueq(a[c][r], a[r][c]); } r += 1; } c += 1; } vassert("is_symmetric", m.is_symmetric() == w); vcover("end"); }
fn c18_is_symmetric4(m: Matrix4<R>) { let a = a4(m); let mut w = true; let mut c = 0; while c < 4 { let mut r = 0; while r < 4 { if c != r { w = w & ueq(a[c][r], a[r][c]); } r += 1; } c += 1; } vassert("is_symmetric", m.is_symmetric() == w); vcover("end"); }
fn c18_is_invertible23(m2: Matrix2<R>, m3: Matrix3<R>) { vassert("m2", m2.is_invertible() == !ueq(det2(a2(m2)), R(0.0))); vassert("m3", m3.is_invertible() == !ueq(det3(a3(m3)), R(0.0))); vcover("end"); }
fn c18_is_invertible4(m: Matrix4<R>) {
    vassert("is_invertible", m.is_invertible() == !ueq(det4(a4(m)), R(0.0)));
    vcover("end");
}
fn c18_is_perpendicular(u2: Vector2<R>, v2: Vector2<R>, u3: Vector3<R>, w3: Vector3<R>, u4: Vector4<R>, v4: Vector4<R>, p: Quaternion<R>, q: Quaternion<R>) {
    vassert("v2", u2.is_perpendicular(v2) == ueq(dot2(u2, v2), R(0.0)));
    vassert("v3", u3.is_perpendicular(w3) == ueq(dot3(u3, w3), R(0.0)));
    vassert("v4", u4.is_perpendicular(v4) == ueq(dot4(u4, v4), R(0.0)));
    vassert("q", p.is_perpendicular(q) == ueq(qdot(p, q), R(0.0)));
    vcover("end");
}
}
