//! GENERATED from util.rs by tools/gen_f32_twins.py (the oracle helpers at R32) -- do not edit.
//! Oracle helpers: written from scalar operations only, never by calling the cgmath function
//! under test.
use crate::*;
use crate::r32::R32;
use cgmath::*;

#[inline(always)] pub fn z() -> R32 { R32(0.0) }
#[inline(always)] pub fn one() -> R32 { R32(1.0) }

#[inline(always)] pub fn dot2(a: Vector2<R32>, b: Vector2<R32>) -> R32 { a.x * b.x + a.y * b.y }
#[inline(always)] pub fn dot3(a: Vector3<R32>, b: Vector3<R32>) -> R32 { a.x * b.x + a.y * b.y + a.z * b.z }
#[inline(always)] pub fn dot4(a: Vector4<R32>, b: Vector4<R32>) -> R32 { a.x * b.x + a.y * b.y + a.z * b.z + a.w * b.w }
#[inline(always)] pub fn cross3(a: Vector3<R32>, b: Vector3<R32>) -> Vector3<R32> {
    Vector3 { x: a.y * b.z - a.z * b.y, y: a.z * b.x - a.x * b.z, z: a.x * b.y - a.y * b.x }
}
#[inline(always)] pub fn qdot(a: Quaternion<R32>, b: Quaternion<R32>) -> R32 { a.s * b.s + a.v.x * b.v.x + a.v.y * b.v.y + a.v.z * b.v.z }

/// Matrices as plain arrays m[c][r] (column, row) for the oracles.
#[inline(always)] pub fn a2(m: Matrix2<R32>) -> [[R32; 2]; 2] { [[m.x.x, m.x.y], [m.y.x, m.y.y]] }
#[inline(always)] pub fn a3(m: Matrix3<R32>) -> [[R32; 3]; 3] { [[m.x.x, m.x.y, m.x.z], [m.y.x, m.y.y, m.y.z], [m.z.x, m.z.y, m.z.z]] }
#[inline(always)] pub fn a4(m: Matrix4<R32>) -> [[R32; 4]; 4] {
    [[m.x.x, m.x.y, m.x.z, m.x.w], [m.y.x, m.y.y, m.y.z, m.y.w], [m.z.x, m.z.y, m.z.z, m.z.w], [m.w.x, m.w.y, m.w.z, m.w.w]]
}
#[inline(always)] pub fn mul_n<const N: usize>(a: [[R32; N]; N], b: [[R32; N]; N]) -> [[R32; N]; N] {
    let mut c = [[R32(0.0); N]; N];
    let mut j = 0;
    while j < N { let mut i = 0; while i < N { let mut acc = R32(0.0); let mut k = 0; while k < N { acc = acc + a[k][i] * b[j][k]; k += 1; } c[j][i] = acc; i += 1; } j += 1; }
    c
}
#[inline(always)] pub fn mulv_n<const N: usize>(a: [[R32; N]; N], v: [R32; N]) -> [R32; N] {
    let mut o = [R32(0.0); N];
    let mut i = 0;
    while i < N { let mut acc = R32(0.0); let mut k = 0; while k < N { acc = acc + a[k][i] * v[k]; k += 1; } o[i] = acc; i += 1; }
    o
}
#[inline(always)] pub fn ident_n<const N: usize>() -> [[R32; N]; N] {
    let mut c = [[R32(0.0); N]; N]; let mut i = 0; while i < N { c[i][i] = R32(1.0); i += 1; } c
}
#[inline(always)] pub fn transpose_n<const N: usize>(a: [[R32; N]; N]) -> [[R32; N]; N] {
    let mut c = [[R32(0.0); N]; N]; let mut j = 0; while j < N { let mut i = 0; while i < N { c[j][i] = a[i][j]; i += 1; } j += 1; } c
}
/// Leibniz determinants, written out.
#[inline(always)] pub fn det2(m: [[R32; 2]; 2]) -> R32 { m[0][0] * m[1][1] - m[1][0] * m[0][1] }
#[inline(always)] pub fn det3(m: [[R32; 3]; 3]) -> R32 {
    m[0][0] * m[1][1] * m[2][2] + m[1][0] * m[2][1] * m[0][2] + m[2][0] * m[0][1] * m[1][2]
        - m[2][0] * m[1][1] * m[0][2] - m[1][0] * m[0][1] * m[2][2] - m[0][0] * m[2][1] * m[1][2]
}
/// Leibniz expansion over all 24 permutations, sign by inversion count.
#[inline(always)] pub fn det4(m: [[R32; 4]; 4]) -> R32 {
    let mut acc = R32(0.0);
    let mut p0 = 0;
    while p0 < 4 { let mut p1 = 0; while p1 < 4 { let mut p2 = 0; while p2 < 4 { let mut p3 = 0; while p3 < 4 {
        if p0 != p1 && p0 != p2 && p0 != p3 && p1 != p2 && p1 != p3 && p2 != p3 {
            let inv = (p0 > p1) as u32 + (p0 > p2) as u32 + (p0 > p3) as u32 + (p1 > p2) as u32 + (p1 > p3) as u32 + (p2 > p3) as u32;
            let t = m[0][p0] * m[1][p1] * m[2][p2] * m[3][p3];
            if inv % 2 == 0 { acc = acc + t } else { acc = acc - t }
        }
        p3 += 1; } p2 += 1; } p1 += 1; } p0 += 1; }
    acc
}
#[inline(always)] pub fn va2(v: Vector2<R32>) -> [R32; 2] { [v.x, v.y] }
#[inline(always)] pub fn va3(v: Vector3<R32>) -> [R32; 3] { [v.x, v.y, v.z] }
#[inline(always)] pub fn va4(v: Vector4<R32>) -> [R32; 4] { [v.x, v.y, v.z, v.w] }
#[inline(always)] pub fn add_n<const N: usize>(a: [[R32; N]; N], b: [[R32; N]; N]) -> [[R32; N]; N] {
    let mut c = [[R32(0.0); N]; N]; let mut j = 0; while j < N { let mut i = 0; while i < N { c[j][i] = a[j][i] + b[j][i]; i += 1; } j += 1; } c
}
#[inline(always)] pub fn scale_n<const N: usize>(a: [[R32; N]; N], s: R32) -> [[R32; N]; N] {
    let mut c = [[R32(0.0); N]; N]; let mut j = 0; while j < N { let mut i = 0; while i < N { c[j][i] = a[j][i] * s; i += 1; } j += 1; } c
}
#[inline(always)] pub fn vadd_n<const N: usize>(a: [R32; N], b: [R32; N]) -> [R32; N] {
    let mut c = [R32(0.0); N]; let mut i = 0; while i < N { c[i] = a[i] + b[i]; i += 1; } c
}
#[inline(always)] pub fn vscale_n<const N: usize>(a: [R32; N], s: R32) -> [R32; N] {
    let mut c = [R32(0.0); N]; let mut i = 0; while i < N { c[i] = a[i] * s; i += 1; } c
}
/// Hamilton product written out (scalar first): oracle for C04.
#[inline(always)] pub fn hamilton(p: Quaternion<R32>, q: Quaternion<R32>) -> Quaternion<R32> {
    let (a1, b1, c1, d1) = (p.s, p.v.x, p.v.y, p.v.z);
    let (a2, b2, c2, d2) = (q.s, q.v.x, q.v.y, q.v.z);
    Quaternion { s: a1 * a2 - b1 * b2 - c1 * c2 - d1 * d2,
        v: Vector3 { x: a1 * b2 + b1 * a2 + c1 * d2 - d1 * c2, y: a1 * c2 - b1 * d2 + c1 * a2 + d1 * b2, z: a1 * d2 + b1 * c2 - c1 * b2 + d1 * a2 } }
}
#[inline(always)] pub fn qconj(q: Quaternion<R32>) -> Quaternion<R32> { Quaternion { s: q.s, v: Vector3 { x: R32(0.0) - q.v.x, y: R32(0.0) - q.v.y, z: R32(0.0) - q.v.z } } }
#[inline(always)] pub fn qnorm2(q: Quaternion<R32>) -> R32 { q.s * q.s + q.v.x * q.v.x + q.v.y * q.v.y + q.v.z * q.v.z }
#[inline(always)] pub fn v3(x: R32, y: R32, z: R32) -> Vector3<R32> { Vector3 { x, y, z } }
/// The rotation matrix of a (unit) quaternion, written from the textbook formula, as m[c][r].
#[inline(always)] pub fn qmat(q: Quaternion<R32>) -> [[R32; 3]; 3] {
    let (w, x, y, z) = (q.s, q.v.x, q.v.y, q.v.z);
    let two = R32(2.0); let one = R32(1.0);
    [[one - two * (y * y + z * z), two * (x * y + w * z), two * (x * z - w * y)],
     [two * (x * y - w * z), one - two * (x * x + z * z), two * (y * z + w * x)],
     [two * (x * z + w * y), two * (y * z - w * x), one - two * (x * x + y * y)]]
}
