//! `R32`: the f32 twin of the abstract scalar `R`.  GENERATED from lib.rs by tools/gen_f32_twins.py -- do not edit.
//! Constants that cgmath obtains through `cast(..)` are rounded to f32 (`r32_const`), default tolerances are f32's;
//! in REAL mode arithmetic on symbolic values is exact, as for `R`.  Natively it is plain f32.
use crate::{Leaf, Leaves};
use num_traits::{Float, Num, NumCast, One, ToPrimitive, Zero};
use std::ops::*;

#[derive(Copy, Clone, Debug, PartialEq)]
pub struct R32(pub f32);
// comparisons lower to single f32 comparisons (the derived impl would route every `<` through a
// four-way partial_cmp diamond and multiply paths); semantics are those of f32, NaN included
impl PartialOrd for R32 {
    #[inline(always)] fn partial_cmp(&self, o: &R32) -> Option<std::cmp::Ordering> { self.0.partial_cmp(&o.0) }
    #[inline(always)] fn lt(&self, o: &R32) -> bool { self.0 < o.0 }
    #[inline(always)] fn le(&self, o: &R32) -> bool { self.0 <= o.0 }
    #[inline(always)] fn gt(&self, o: &R32) -> bool { self.0 > o.0 }
    #[inline(always)] fn ge(&self, o: &R32) -> bool { self.0 >= o.0 }
}

macro_rules! binop32 { ($Tr:ident, $f:ident, $TrA:ident, $fa:ident, $op:tt) => {
    impl $Tr for R32 { type Output = R32; #[inline(always)] fn $f(self, o: R32) -> R32 { R32(self.0 $op o.0) } }
    impl<'a> $Tr<&'a R32> for R32 { type Output = R32; #[inline(always)] fn $f(self, o: &'a R32) -> R32 { R32(self.0 $op o.0) } }
    impl $TrA for R32 { #[inline(always)] fn $fa(&mut self, o: R32) { self.0 = self.0 $op o.0; } }
}}
binop32!(Add, add, AddAssign, add_assign, +);
binop32!(Sub, sub, SubAssign, sub_assign, -);
binop32!(Mul, mul, MulAssign, mul_assign, *);
binop32!(Div, div, DivAssign, div_assign, /);
impl Rem for R32 { type Output = R32; #[inline(never)] fn rem(self, o: R32) -> R32 { R32(self.0 % o.0) } }
impl RemAssign for R32 { #[inline(always)] fn rem_assign(&mut self, o: R32) { *self = *self % o; } }
impl Neg for R32 { type Output = R32; #[inline(always)] fn neg(self) -> R32 { R32(-self.0) } }
impl Zero for R32 { #[inline(always)] fn zero() -> R32 { R32(0.0) } #[inline(always)] fn is_zero(&self) -> bool { self.0 == 0.0 } }
impl One for R32 { #[inline(always)] fn one() -> R32 { R32(1.0) } }
impl Num for R32 { type FromStrRadixErr = (); fn from_str_radix(_: &str, _: u32) -> Result<R32, ()> { Err(()) } }
impl ToPrimitive for R32 {
    #[inline(never)] fn to_i64(&self) -> Option<i64> { self.0.to_i64() }
    #[inline(never)] fn to_u64(&self) -> Option<u64> { self.0.to_u64() }
    #[inline(never)] fn to_f64(&self) -> Option<f64> { Some(self.0 as f64) }
}
/// Every numeric literal cgmath obtains through `NumCast::from` / `cast(..).unwrap()` arrives here.
#[inline(never)] pub fn r32_const(c: f64) -> R32 { R32(c as f32) }
impl NumCast for R32 { #[inline(always)] fn from<T: ToPrimitive>(n: T) -> Option<R32> { match n.to_f64() { Some(x) => Some(r32_const(x)), None => None } } }
impl std::iter::Sum for R32 { fn sum<I: Iterator<Item = R32>>(it: I) -> R32 { it.fold(R32(0.0), |a, b| a + b) } }
impl std::iter::Product for R32 { fn product<I: Iterator<Item = R32>>(it: I) -> R32 { it.fold(R32(1.0), |a, b| a * b) } }

macro_rules! un32 { ($($f:ident),*) => { $( #[inline(never)] fn $f(self) -> R32 { R32(self.0.$f()) } )* } }
macro_rules! cst32 { ($($f:ident => $e:expr),*) => { $( #[inline(never)] fn $f() -> R32 { R32($e) } )* } }
macro_rules! pred32 { ($($f:ident),*) => { $( #[inline(never)] fn $f(self) -> bool { self.0.$f() } )* } }
impl Float for R32 {
    cst32!(nan => f32::NAN, infinity => f32::INFINITY, neg_infinity => f32::NEG_INFINITY, neg_zero => -0.0,
         min_value => f32::MIN, min_positive_value => f32::MIN_POSITIVE, max_value => f32::MAX, epsilon => f32::EPSILON);
    pred32!(is_nan, is_infinite, is_finite, is_normal, is_sign_positive, is_sign_negative);
    fn classify(self) -> std::num::FpCategory { self.0.classify() }
    un32!(floor, ceil, round, trunc, fract, abs, signum, recip, sqrt, exp, exp2, ln, log2, log10, cbrt,
        sin, cos, tan, asin, acos, atan, exp_m1, ln_1p, sinh, cosh, tanh, asinh, acosh, atanh);
    #[inline(never)] fn mul_add(self, a: R32, b: R32) -> R32 { R32(self.0.mul_add(a.0, b.0)) }
    #[inline(never)] fn powi(self, n: i32) -> R32 { R32(self.0.powi(n)) }
    #[inline(never)] fn powf(self, n: R32) -> R32 { R32(self.0.powf(n.0)) }
    #[inline(never)] fn log(self, n: R32) -> R32 { R32(self.0.log(n.0)) }
    #[inline(never)] fn max(self, n: R32) -> R32 { R32(self.0.max(n.0)) }
    #[inline(never)] fn min(self, n: R32) -> R32 { R32(self.0.min(n.0)) }
    #[inline(never)] fn abs_sub(self, n: R32) -> R32 { R32((self.0 - n.0).max(0.0)) }
    #[inline(never)] fn hypot(self, n: R32) -> R32 { R32(self.0.hypot(n.0)) }
    #[inline(never)] fn atan2(self, n: R32) -> R32 { R32(self.0.atan2(n.0)) }
    #[inline(never)] fn copysign(self, n: R32) -> R32 { R32(self.0.copysign(n.0)) }
    #[inline(always)] fn sin_cos(self) -> (R32, R32) { (self.sin(), self.cos()) }
    fn integer_decode(self) -> (u64, i16, i8) { self.0.integer_decode() }
}
impl approx::AbsDiffEq for R32 { type Epsilon = R32;
    #[inline(never)] fn default_epsilon() -> R32 { R32(f32::EPSILON) }
    #[inline(never)] fn abs_diff_eq(&self, o: &R32, e: R32) -> bool { self.0.abs_diff_eq(&o.0, e.0) } }
impl approx::RelativeEq for R32 {
    #[inline(never)] fn default_max_relative() -> R32 { R32(f32::EPSILON) }
    #[inline(never)] fn relative_eq(&self, o: &R32, e: R32, m: R32) -> bool { self.0.relative_eq(&o.0, e.0, m.0) } }
impl approx::UlpsEq for R32 {
    #[inline(never)] fn default_max_ulps() -> u32 { 4 }
    #[inline(never)] fn ulps_eq(&self, o: &R32, e: R32, m: u32) -> bool { self.0.ulps_eq(&o.0, e.0, m) } }


impl Leaves for R32 {
    fn leaves(&self, out: &mut Vec<Leaf>) { out.push(Leaf::F(self.0 as f64)) }
    fn build(it: &mut dyn Iterator<Item = Leaf>) -> R32 { match it.next() { Some(Leaf::F(x)) => R32(x as f32), Some(Leaf::I(x)) => R32(x as f32), o => panic!("bad leaf for R32: {:?}", o) } }
}
