//! C15 -- between_vectors and from_arc return the shortest rotation taking a onto b.
use crate::util::*;
use crate::*;
use cgmath::*;

#[inline(always)] fn unit3(a: Vector3<R>) { vassume_eq(dot3(a, a), R(1.0)); }
#[inline(always)] fn ulps(a: R, b: R) -> bool { approx::UlpsEq::ulps_eq(&a, &b, <R as approx::AbsDiffEq>::default_epsilon(), <R as approx::UlpsEq>::default_max_ulps()) }
// cos(1e-7) = 0.999999999999995000000000000004166...  (50-digit arithmetic); 1 - 4.9e-15 is above it
const COS_1E7_UP: f64 = 0.9999999999999951;
// cos(1e-4) = 0.99999999500000000416...; 1 - 4.9e-9 is above it
const COS_1E4_UP: f64 = 0.9999999951;

harnesses! { reg;
// scalar lemma: |(1+d, c)|^2 = 2(1+d) when |c|^2 = 1 - d^2
fn c15_lemma_halfway(d: R, c2: R, n: R) {
    vassume(d > R(-1.0)); vassume_eq(c2, R(1.0) - d * d); vassume(n >= R(0.0)); vassume_eq(n * n, (R(1.0) + d) * (R(1.0) + d) + c2);
    vassert_eq("n^2 = 2(1+d)", n * n, R(2.0) * (R(1.0) + d));
    vassert("n > 0", n > R(0.0));
    vassert_eq("2 ((1+d)/n)^2 - 1 = d", R(2.0) * ((R(1.0) + d) * (R(1.0) / n)) * ((R(1.0) + d) * (R(1.0) / n)) - R(1.0), d);
    vcover("end");
}
fn c15_lemma_inv(n: R, kk: R) {
    vassume(n > R(0.0)); vassume_eq(kk, R(1.0) / n);
    vassert_eq("n^2 kk^2 = 1", (n * n) * kk * kk, R(1.0));
    vassert("kk > 0", kk > R(0.0));
    vcover("end");
}
fn c15_lemma_prod_bound(p: R, q: R, l: R) {
    vassume(l >= R(0.0)); vassume(p >= l); vassume(q >= l);
    vassert("p q >= l^2", p * q >= l * l);
    vcover("end");
}
fn c15_lemma_abs_le(d: R, mag: R, c2: R) {
    // c2 = mag^2 - d^2 is a squared length, mag >= 0  =>  |d| <= mag
    vassume(c2 >= R(0.0)); vassume_eq(c2, mag * mag - d * d); vassume(mag >= R(0.0));
    vassert("|d| <= mag", (d <= mag) & (d >= -mag));
    vcover("end");
}
fn c15_lemma_sqrt_bound(m: R, p: R, lo: R) {
    // m = sqrt(p), p >= lo^2, lo >= 0  =>  m >= lo
    vassume(m >= R(0.0)); vassume_eq(m * m, p); vassume(lo >= R(0.0)); vassume(p >= lo * lo);
    vassert("m >= lo", m >= lo);
    vcover("end");
}
// (q*src).dst = mag for q = (mag + d, c)/n with n^2 = 2 mag (mag + d), |c|^2 = mag^2 - d^2
fn c15_lemma_arc_image(mag: R, d: R, n: R, kk: R, c2: R) {
    vassume(mag > R(0.0)); vassume(n > R(0.0)); vassume_eq(kk, R(1.0) / n); vassume_eq(n * n, R(2.0) * mag * (mag + d)); vassume_eq(c2, mag * mag - d * d);
    let w = (mag + d) * kk;
    vassert_eq("d (w^2 - |v|^2) + 2 w |c|^2 kk = mag", d * (w * w - c2 * kk * kk) + R(2.0) * w * (c2 * kk), mag);
    vcover("end");
}
fn c15_quat_between_general(a: Vector3<R>, b: Vector3<R>) {
    unit3(a); unit3(b);
    let d = a.dot(b);
    let k = (a.magnitude2() * b.magnitude2()).sqrt();
    vlemma_eq("k = 1", k, R(1.0));
    vassume(!ulps(d, R(1.0))); vassume(!ulps(d / k, R(-1.0)));      // the general path
    let q: Quaternion<R> = Rotation::between_vectors(a, b);
    vcover("general path");
    let c = a.cross(b);
    vlemma_eq("lagrange: |a x b|^2 = 1 - d^2", c.magnitude2(), R(1.0) - d * d);
    vlemma_eq("|a-b|^2 = 2 - 2d", dot3(a - b, a - b), R(2.0) - R(2.0) * d);
    vlemma_eq("|a+b|^2 = 2 + 2d", dot3(a + b, a + b), R(2.0) + R(2.0) * d);
    vlemma("d <= 1", d <= R(1.0)); vlemma("d >= -1", d >= R(-1.0));
    vlemma("d != -1", d != R(-1.0));
    vlemma("d > -1", d > R(-1.0));
    let h = Quaternion::from_sv(k + d, c);
    let n = h.magnitude();
    vlemma_eq("|h|^2", n * n, (R(1.0) + d) * (R(1.0) + d) + c.magnitude2());
    c15_lemma_halfway(d, c.magnitude2(), n);
    let kk = R(1.0) / n;
    c15_lemma_inv(n, kk);
    vassert_eq("q = h / |h|", q, h * kk);
    vlemma_eq("|q|^2 = |h|^2 / n^2", qnorm2(q), (n * n) * kk * kk);
    vassert_eq("|q| = 1", qnorm2(q), R(1.0));
    vlemma_eq("q.s = (1+d)/n", q.s, (R(1.0) + d) * (R(1.0) / n));
    vassert_eq("rotation angle = angle between: 2 q.s^2 - 1 = a.b", R(2.0) * q.s * q.s - R(1.0), d);
    vassert_eq("axis parallel to a x b", cross3(q.v, c), v3(R(0.0), R(0.0), R(0.0)));
    vlemma_eq("q.v = c kk", q.v, c * kk);
    vlemma_eq("q.v . c = |c|^2 kk", dot3(q.v, c), c.magnitude2() * kk);
    vlemma("|c|^2 >= 0", c.magnitude2() >= R(0.0));
    vlemma("kk > 0", kk > R(0.0));
    vlemma("|c|^2 kk >= 0", c.magnitude2() * kk >= R(0.0));
    vassert("axis along +a x b", dot3(q.v, c) >= R(0.0));
    vcover("end");
}
// q*a = b on the general path (separate harness: the heaviest obligation)
fn c15_quat_between_maps(a: Vector3<R>, b: Vector3<R>) {
    unit3(a); unit3(b);
    let d = a.dot(b);
    let k = (a.magnitude2() * b.magnitude2()).sqrt();
    vlemma_eq("k = 1", k, R(1.0));
    vassume(!ulps(d, R(1.0))); vassume(!ulps(d / k, R(-1.0)));
    let q: Quaternion<R> = Rotation::between_vectors(a, b);
    vassert_eq("q*a = b", q * a, b);
    vcover("end");
}
fn c15_quat_between_same(a: Vector3<R>, b: Vector3<R>) {
    unit3(a); unit3(b);
    let d = a.dot(b);
    vassume(ulps(d, R(1.0)));
    vcover("same path");
    let q: Quaternion<R> = Rotation::between_vectors(a, b);
    vassert_eq("treated as parallel: identity", q, Quaternion::one());
    vlemma_eq("|a-b|^2 = 2 - 2d", dot3(a - b, a - b), R(2.0) - R(2.0) * d);
    vlemma("d <= 1", d <= R(1.0));
    vassert("only within 1e-7 rad of parallel", d >= R(COS_1E7_UP));
    vcover("end");
}
fn c15_quat_between_exactly_same(a: Vector3<R>) {
    unit3(a);
    let q: Quaternion<R> = Rotation::between_vectors(a, a);
    vassert_eq("b = a: identity", q, Quaternion::one());
    vcover("end");
}
fn c15_quat_between_opposite(a: Vector3<R>, b: Vector3<R>) {
    unit3(a); unit3(b);
    let d = a.dot(b);
    let k = (a.magnitude2() * b.magnitude2()).sqrt();
    vlemma_eq("k = 1", k, R(1.0));
    vlemma_eq("d/k = d", d / k, d);
    vassume(!ulps(d, R(1.0))); vassume(ulps(d / k, R(-1.0)));
    vcover("opposite path");
    let q: Quaternion<R> = Rotation::between_vectors(a, b);
    let ox = a.cross(Vector3::unit_x());
    if ulps(ox.magnitude2(), R(0.0)) { vcover("fallback axis y"); } else { vcover("axis from x"); }
    vassert_eq("half turn: q.s = 0", q.s, R(0.0));
    vassert_eq("axis unit", dot3(q.v, q.v), R(1.0));
    vassert_eq("axis perpendicular to a", dot3(q.v, a), R(0.0));
    vassert_eq("q*a = -a", q * a, -a);
    vlemma_eq("|a+b|^2 = 2 + 2d", dot3(a + b, a + b), R(2.0) + R(2.0) * d);
    vlemma("d >= -1", d >= R(-1.0));
    vassert("only within 1e-7 rad of antiparallel", d <= R(-COS_1E7_UP));
    vcover("end");
}
fn c15_quat_between_exactly_opposite(a: Vector3<R>) {
    unit3(a);
    let q: Quaternion<R> = Rotation::between_vectors(a, -a);
    vassert_eq("half turn: q.s = 0", q.s, R(0.0));
    vassert_eq("axis unit", dot3(q.v, q.v), R(1.0));
    vassert_eq("axis perpendicular to a", dot3(q.v, a), R(0.0));
    vassert_eq("q*a = -a", q * a, -a);
    vcover("end");
}
fn c15_basis3_between(a: Vector3<R>, b: Vector3<R>) {
    unit3(a); unit3(b);
    let q: Quaternion<R> = Rotation::between_vectors(a, b);
    let m: Basis3<R> = Rotation::between_vectors(a, b);
    vassert_eq("Basis3 = matrix of the quaternion", Matrix3::from(m), Matrix3::from(q));
    vcover("end");
}
// 2-D: r(a) = b and the turn is the short, signed way
fn c15_basis2_between(a: Vector2<R>, b: Vector2<R>) {
    vassume_eq(dot2(a, a), R(1.0)); vassume_eq(dot2(b, b), R(1.0));
    let r: Basis2<R> = Rotation::between_vectors(a, b);
    let m: &Matrix2<R> = r.as_ref();
    let (x, y) = (a.dot(b), a.perp_dot(b));
    vlemma_eq("lagrange: (a.b)^2 + perp^2 = 1", x * x + y * y, R(1.0));
    vlemma_eq("radius = 1", (x * x + y * y).sqrt(), R(1.0));
    vassert_eq("cos of the turn = a.b", m.x.x, dot2(a, b));
    vassert_eq("sin of the turn = perp_dot(a,b) (clockwise when b is clockwise of a)", m.x.y, a.x * b.y - a.y * b.x);
    vassert_eq("rotation matrix shape", [m.y.x, m.y.y], [-m.x.y, m.x.x]);
    vassert_eq("det = 1", det2(a2(*m)), R(1.0));
    vassert_eq("r(a) = b", r.rotate_vector(a), b);
    vcover("end");
}
// ---- from_arc
fn c15_from_arc_general(src: Vector3<R>, dst: Vector3<R>, fb: Vector3<R>) {
    vassume(dot3(src, src) != R(0.0)); vassume(dot3(dst, dst) != R(0.0));
    let mag = (src.magnitude2() * dst.magnitude2()).sqrt();
    let d = src.dot(dst);
    vassume(!ulps(d, mag)); vassume(!ulps(d, -mag));
    vcover("general path");
    let q = Quaternion::from_arc(src, dst, Some(fb));
    vassert_eq("fallback unused", Quaternion::from_arc(src, dst, None), q);
    let c = src.cross(dst);
    vlemma_eq("mag^2 = |src|^2 |dst|^2", mag * mag, src.magnitude2() * dst.magnitude2());
    vlemma("mag > 0", mag > R(0.0));
    vlemma_eq("lagrange: |src x dst|^2 = mag^2 - d^2", c.magnitude2(), mag * mag - d * d);
    vlemma("|src x dst|^2 >= 0", c.magnitude2() >= R(0.0));
    c15_lemma_abs_le(d, mag, c.magnitude2());
    vlemma("|d| <= mag", (d <= mag) & (d >= -mag));
    vlemma("d != -mag", d != -mag);
    let h = Quaternion::from_sv(mag + d, c);
    let n = h.magnitude();
    vlemma_eq("|h|^2 = 2 mag (mag + d)", n * n, R(2.0) * mag * (mag + d));
    vlemma("|h| > 0", n > R(0.0));
    let kk = R(1.0) / n;
    vassert_eq("q = h / |h|", q, h * kk);
    vlemma_eq("|q|^2 = |h|^2 kk^2", qnorm2(q), (n * n) * kk * kk);
    vassert_eq("|q| = 1", qnorm2(q), R(1.0));
    vassert("smaller angle: q.s >= 0", q.s >= R(0.0));
    vcover("end");
}
fn c15_from_arc_maps(src: Vector3<R>, dst: Vector3<R>) {
    vassume(dot3(src, src) != R(0.0)); vassume(dot3(dst, dst) != R(0.0));
    let mag = (src.magnitude2() * dst.magnitude2()).sqrt();
    let d = src.dot(dst);
    vassume(!ulps(d, mag)); vassume(!ulps(d, -mag));
    let q = Quaternion::from_arc(src, dst, None);
    let c = src.cross(dst);
    vlemma_eq("mag^2 = |src|^2 |dst|^2", mag * mag, src.magnitude2() * dst.magnitude2());
    vlemma("mag > 0", mag > R(0.0));
    vlemma_eq("lagrange: |src x dst|^2 = mag^2 - d^2", c.magnitude2(), mag * mag - d * d);
    vlemma("|src x dst|^2 >= 0", c.magnitude2() >= R(0.0));
    c15_lemma_abs_le(d, mag, c.magnitude2());
    vlemma("|d| <= mag", (d <= mag) & (d >= -mag));
    vlemma("d != -mag", d != -mag);
    let h = Quaternion::from_sv(mag + d, c);
    let n = h.magnitude(); let kk = R(1.0) / n;
    vlemma_eq("|h|^2 = 2 mag (mag + d)", n * n, R(2.0) * mag * (mag + d));
    vlemma("|h| > 0", n > R(0.0));
    vlemma_eq("q = h / |h|", q, h * kk);
    let img = q * src;
    // q rotates src/|src| onto dst/|dst|: the image is parallel to dst with positive dot product
    vassert_eq("(q*src) x dst = 0", cross3(img, dst), v3(R(0.0), R(0.0), R(0.0)));
    let w = (mag + d) * kk; let c2 = c.magnitude2();
    vlemma_eq("(q*src).dst expanded", dot3(img, dst), d * (w * w - c2 * kk * kk) + R(2.0) * w * (c2 * kk));
    c15_lemma_arc_image(mag, d, n, kk, c2);
    vassert_eq("(q*src) . dst = |src||dst|", dot3(img, dst), mag);
    vassert("(q*src) . dst > 0", dot3(img, dst) > R(0.0));
    vcover("end");
}
fn c15_from_arc_parallel(src: Vector3<R>, dst: Vector3<R>, fb: Vector3<R>) {
    vassume(dot3(src, src) != R(0.0)); vassume(dot3(dst, dst) != R(0.0));
    let mag = (src.magnitude2() * dst.magnitude2()).sqrt();
    let d = src.dot(dst);
    vassume(ulps(d, mag));
    vcover("parallel path");
    vassert_eq("treated as parallel: identity", Quaternion::from_arc(src, dst, Some(fb)), Quaternion::one());
    vassert_eq("treated as parallel: identity (no fallback)", Quaternion::from_arc(src, dst, None), Quaternion::one());
    vcover("end");
}
fn c15_from_arc_parallel_tolerance(src: Vector3<R>, dst: Vector3<R>) {
    // lengths between 1e-3 and 1e3: the parallel path is only taken within 1e-4 rad
    vassume((dot3(src, src) >= R(1e-6)) & (dot3(src, src) <= R(1e6))); vassume((dot3(dst, dst) >= R(1e-6)) & (dot3(dst, dst) <= R(1e6)));
    let mag = (src.magnitude2() * dst.magnitude2()).sqrt();
    let d = src.dot(dst);
    vlemma_eq("mag^2", mag * mag, src.magnitude2() * dst.magnitude2());
    vlemma("mag >= 0", mag >= R(0.0));
    c15_lemma_prod_bound(src.magnitude2(), dst.magnitude2(), R(1e-6));
    c15_lemma_sqrt_bound(mag, mag * mag, R(1e-6));
    vlemma("mag >= 1e-6", mag >= R(1e-6));
    vlemma_eq("lagrange", src.cross(dst).magnitude2(), mag * mag - d * d);
    vlemma("|src x dst|^2 >= 0", src.cross(dst).magnitude2() >= R(0.0));
    c15_lemma_abs_le(d, mag, src.cross(dst).magnitude2());
    vlemma("|d| <= mag", (d <= mag) & (d >= -mag));
    if ulps(d, mag) { vcover("parallel path"); vassert("cos(angle) >= cos(1e-4)", d >= mag * R(COS_1E4_UP)); }
    if ulps(d, -mag) { vcover("antiparallel path"); vassert("cos(angle) <= -cos(1e-4)", d <= -(mag * R(COS_1E4_UP))); }
    vcover("end");
}
fn c15_from_arc_opposite_fallback(src: Vector3<R>, dst: Vector3<R>, axis: Vector3<R>) {
    vassume(dot3(src, src) != R(0.0)); vassume(dot3(dst, dst) != R(0.0));
    unit3(axis); vassume_eq(dot3(axis, src), R(0.0));           // a fallback axis: unit, perpendicular to src
    let mag = (src.magnitude2() * dst.magnitude2()).sqrt();
    let d = src.dot(dst);
    vassume(!ulps(d, mag)); vassume(ulps(d, -mag));
    vcover("antiparallel path");
    let q = Quaternion::from_arc(src, dst, Some(axis));
    vassert_eq("half turn about the fallback axis", q, Quaternion::from_sv(R(0.0), axis));
    vassert_eq("q*src = -src", q * src, -src);
    vcover("end");
}
fn c15_from_arc_opposite_none(src: Vector3<R>, dst: Vector3<R>) {
    // lengths between 1e-3 and 1e3 (the range for which the property states a tolerance)
    vassume((dot3(src, src) >= R(1e-6)) & (dot3(src, src) <= R(1e6))); vassume((dot3(dst, dst) >= R(1e-6)) & (dot3(dst, dst) <= R(1e6)));
    let mag = (src.magnitude2() * dst.magnitude2()).sqrt();
    let d = src.dot(dst);
    vassume(!ulps(d, mag)); vassume(ulps(d, -mag));
    let q = Quaternion::from_arc(src, dst, None);
    vassert_eq("half turn: q.s = 0", q.s, R(0.0));
    vassert_eq("axis unit", dot3(q.v, q.v), R(1.0));
    vassert_eq("axis perpendicular to src", dot3(q.v, src), R(0.0));
    vassert_eq("q*src = -src", q * src, -src);
    vcover("end");
}
// any non-zero length, no fallback axis: the result must still be a unit quaternion
fn c15_from_arc_opposite_none_anylen(src: Vector3<R>, dst: Vector3<R>) {
    vassume(dot3(src, src) != R(0.0)); vassume(dot3(dst, dst) != R(0.0));
    let mag = (src.magnitude2() * dst.magnitude2()).sqrt();
    let d = src.dot(dst);
    vassume(!ulps(d, mag)); vassume(ulps(d, -mag));
    let q = Quaternion::from_arc(src, dst, None);
    vassert_eq("result is unit", qnorm2(q), R(1.0));
    vcover("end");
}
}
