//! C08 -- transforms compose, invert and convert to matrices consistently.
use crate::util::*;
use crate::*;
use cgmath::*;

type DQ = Decomposed<Vector3<R>, Quaternion<R>>;
type DB3 = Decomposed<Vector3<R>, Basis3<R>>;
type DB2 = Decomposed<Vector2<R>, Basis2<R>>;

#[inline(always)] fn unit(q: Quaternion<R>) { vassume_eq(qnorm2(q), R(1.0)); }
#[inline(always)] fn dq(s: R, q: Quaternion<R>, d: Vector3<R>) -> DQ { Decomposed { scale: s, rot: q, disp: d } }
#[inline(always)] fn db3(s: R, q: Quaternion<R>, d: Vector3<R>) -> DB3 { Decomposed { scale: s, rot: Basis3::from_quaternion(&q), disp: d } }
// a Basis2 can only be built from an angle; (cos t, sin t) are opaque symbols with cos^2 + sin^2 = 1
#[inline(always)] fn db2(s: R, t: R, d: Vector2<R>) -> DB2 { Decomposed { scale: s, rot: Rotation2::from_angle(Rad(t)), disp: d } }
#[inline(always)] fn not_negligible(s: R) { vassume((s > R(1e-6)) | (s < R(-1e-6))); }

// laws shared by the three Decomposed instantiations
macro_rules! dec_laws { ($reg:ident, $T:ty, $P:ident, $V:ident, $mk:ident, $RP:ty, $assume_rot:ident;
    $fcomp:ident, $fone:ident, $finv0:ident, $finv:ident) => {
harnesses! { $reg;
fn $fcomp(s1: R, r1: $RP, d1: $V<R>, s2: R, r2: $RP, d2: $V<R>, p: $P<R>, v: $V<R>) {
    $assume_rot(r1); $assume_rot(r2);
    let s: $T = $mk(s1, r1, d1); let t: $T = $mk(s2, r2, d2);
    let c = s.concat(&t);
    vassert_eq("concat.p = s(t(p))", c.transform_point(p), s.transform_point(t.transform_point(p)));
    vassert_eq("concat.v = s(t(v))", c.transform_vector(v), s.transform_vector(t.transform_vector(v)));
    let m = s * t;
    vassert_eq("(s*t).p", m.transform_point(p), s.transform_point(t.transform_point(p)));
    vassert_eq("(s*t).v", m.transform_vector(v), s.transform_vector(t.transform_vector(v)));
    let mut cs = s; cs.concat_self(&t);
    vassert_eq("concat_self.p", cs.transform_point(p), s.transform_point(t.transform_point(p)));
    vassert_eq("concat_self.v", cs.transform_vector(v), s.transform_vector(t.transform_vector(v)));
    vassert_eq("concat scale", c.scale, s1 * s2);
    vcover("end");
}
fn $fone(s1: R, r1: $RP, d1: $V<R>, d2: $V<R>, p: $P<R>, v: $V<R>) {
    $assume_rot(r1);
    let s: $T = $mk(s1, r1, d1);
    let o = <$T as One>::one();
    vassert_eq("one.p", o.transform_point(p), p);
    vassert_eq("one.v", o.transform_vector(v), v);
    // transform_vector ignores displacement
    let s2: $T = $mk(s1, r1, d2);
    vassert_eq("vector ignores disp", s.transform_vector(v), s2.transform_vector(v));
    // a point is the vector image displaced
    let pv = p.to_vec();
    vassert_eq("point = vector image + disp", s.transform_point(p).to_vec(), s.transform_vector(pv) + d1);
    vcover("end");
}
// zero scale factor: no inverse
fn $finv0(r1: $RP, d1: $V<R>, v: $V<R>) {
    $assume_rot(r1);
    let s: $T = $mk(R(0.0), r1, d1);
    vassert("scale 0 => inverse_transform None", s.inverse_transform().is_none());
    vassert("scale 0 => inverse_transform_vector None", s.inverse_transform_vector(v).is_none());
    vcover("end");
}
// |scale| > 1e-6: the inverse exists and undoes the transform, both orders
fn $finv(s1: R, r1: $RP, d1: $V<R>, p: $P<R>, v: $V<R>) {
    $assume_rot(r1); not_negligible(s1);
    let s: $T = $mk(s1, r1, d1);
    match s.inverse_transform() {
        None => { vmust_not_reach("inverse exists for non-negligible scale"); }
        Some(i) => {
            vcover("some");
            vassert_eq("inv(s(p)) = p", i.transform_point(s.transform_point(p)), p);
            vassert_eq("s(inv(p)) = p", s.transform_point(i.transform_point(p)), p);
            vassert_eq("inv(s(v)) = v", i.transform_vector(s.transform_vector(v)), v);
            vassert_eq("s(inv(v)) = v", s.transform_vector(i.transform_vector(v)), v);
            match s.inverse_transform_vector(v) {
                None => { vmust_not_reach("inverse_transform_vector exists"); }
                Some(w) => { vassert_eq("inverse_transform_vector agrees", w, i.transform_vector(v)); }
            }
        }
    }
}
}
}}
pub mod q3 { use super::*; dec_laws!(reg, DQ, Point3, Vector3, dq, Quaternion<R>, unit; c08_dq_compose, c08_dq_one, c08_dq_inv_zero, c08_dq_inverse); }
pub mod b3 { use super::*; dec_laws!(reg, DB3, Point3, Vector3, db3, Quaternion<R>, unit; c08_db3_compose, c08_db3_one, c08_db3_inv_zero, c08_db3_inverse); }
#[inline(always)] fn any_angle(_t: R) {}
pub mod b2 { use super::*; dec_laws!(reg, DB2, Point2, Vector2, db2, R, any_angle; c08_db2_compose, c08_db2_one, c08_db2_inv_zero, c08_db2_inverse); }

harnesses! { reg0;
// ---- Decomposed -> matrix commutes with apply / compose / invert
fn c08_dq_matrix(s1: R, r1: Quaternion<R>, d1: Vector3<R>, s2: R, r2: Quaternion<R>, d2: Vector3<R>, p: Point3<R>, v: Vector3<R>) {
    unit(r1); unit(r2);
    let s = dq(s1, r1, d1); let t = dq(s2, r2, d2);
    let ms: Matrix4<R> = s.into(); let mt: Matrix4<R> = t.into();
    vassert_eq("M(s)*(p,1)", ms * p.to_homogeneous(), s.transform_point(p).to_homogeneous());
    vassert_eq("M(s)*(v,0)", ms * v.extend(R(0.0)), s.transform_vector(v).extend(R(0.0)));
    vassert_eq("M(s).transform_point", ms.transform_point(p), s.transform_point(p));
    vassert_eq("M(s).transform_vector", ms.transform_vector(v), s.transform_vector(v));
    let mc: Matrix4<R> = s.concat(&t).into();
    vassert_eq("M(concat)=M(s)M(t)", mc, ms * mt);
    vcover("end");
}
fn c08_dq_matrix_inverse(s1: R, r1: Quaternion<R>, d1: Vector3<R>) {
    unit(r1); not_negligible(s1);
    let s = dq(s1, r1, d1);
    let ms: Matrix4<R> = s.into();
    match s.inverse_transform() {
        None => { vmust_not_reach("inverse exists"); }
        Some(i) => { let mi: Matrix4<R> = i.into();
            vassert_eq("M(inv s) M(s) = I", a4(mi * ms), ident_n::<4>());
            vassert_eq("M(s) M(inv s) = I", a4(ms * mi), ident_n::<4>());
            vcover("some"); }
    }
}
fn c08_db3_matrix(s1: R, r1: Quaternion<R>, d1: Vector3<R>, s2: R, r2: Quaternion<R>, d2: Vector3<R>, p: Point3<R>, v: Vector3<R>) {
    unit(r1); unit(r2);
    let s = db3(s1, r1, d1); let t = db3(s2, r2, d2);
    let ms: Matrix4<R> = s.into(); let mt: Matrix4<R> = t.into();
    vassert_eq("M(s)*(p,1)", ms * p.to_homogeneous(), s.transform_point(p).to_homogeneous());
    vassert_eq("M(s)*(v,0)", ms * v.extend(R(0.0)), s.transform_vector(v).extend(R(0.0)));
    let mc: Matrix4<R> = s.concat(&t).into();
    vassert_eq("M(concat)=M(s)M(t)", mc, ms * mt);
    vcover("end");
}
fn c08_db2_matrix(s1: R, t1: R, d1: Vector2<R>, s2: R, t2: R, d2: Vector2<R>, p: Point2<R>, v: Vector2<R>) {
    let s = db2(s1, t1, d1); let t = db2(s2, t2, d2);
    let ms: Matrix3<R> = s.into(); let mt: Matrix3<R> = t.into();
    vassert_eq("M(s)*(p,1)", ms * Vector3::new(p.x, p.y, R(1.0)), s.transform_point(p).to_vec().extend(R(1.0)));
    vassert_eq("M(s)*(v,0)", ms * v.extend(R(0.0)), s.transform_vector(v).extend(R(0.0)));
    vassert_eq("M(s).transform_point", Transform::<Point2<R>>::transform_point(&ms, p), s.transform_point(p));
    vassert_eq("M(s).transform_vector", Transform::<Point2<R>>::transform_vector(&ms, v), s.transform_vector(v));
    let mc: Matrix3<R> = s.concat(&t).into();
    vassert_eq("M(concat)=M(s)M(t)", mc, ms * mt);
    vcover("end");
}
fn c08_db2_matrix_inverse(s1: R, t1: R, d1: Vector2<R>) {
    not_negligible(s1);
    let s = db2(s1, t1, d1);
    let ms: Matrix3<R> = s.into();
    match s.inverse_transform() {
        None => { vmust_not_reach("inverse exists"); }
        Some(i) => { let mi: Matrix3<R> = i.into();
            vassert_eq("M(inv s) M(s) = I", a3(mi * ms), ident_n::<3>());
            vcover("some"); }
    }
}
// ---- matrices as transforms
fn c08_m4_points(s: Matrix4<R>, t: Matrix4<R>, p: Point3<R>) {
    // points go through the perspective divide: the law is stated where the homogeneous w's are non-zero
    let tp = mulv_n(a4(t), [p.x, p.y, p.z, R(1.0)]);
    vassume(tp[3] != R(0.0));
    let tpp = Point3::new(tp[0] / tp[3], tp[1] / tp[3], tp[2] / tp[3]);
    let stp = mulv_n(a4(s), [tpp.x, tpp.y, tpp.z, R(1.0)]);
    vassume(stp[3] != R(0.0));
    let c = Transform::<Point3<R>>::concat(&s, &t);
    vassert_eq("concat.p = s(t(p))", c.transform_point(p), s.transform_point(t.transform_point(p)));
    let mut cs = s; Transform::<Point3<R>>::concat_self(&mut cs, &t);
    vassert_eq("concat_self", cs, c);
    let o = <Matrix4<R> as One>::one();
    vassert_eq("one.p", o.transform_point(p), p);
    vcover("end");
}
// vectors are transformed without the homogeneous coordinate, so the composition law needs an affine inner matrix
fn c08_m4_vectors(s: Matrix4<R>, t: Matrix4<R>, v: Vector3<R>) {
    vassume_eq([t.x.w, t.y.w, t.z.w, t.w.w], [R(0.0), R(0.0), R(0.0), R(1.0)]);
    let c = Transform::<Point3<R>>::concat(&s, &t);
    vassert_eq("concat.v = s(t(v))", c.transform_vector(v), s.transform_vector(t.transform_vector(v)));
    let o = <Matrix4<R> as One>::one();
    vassert_eq("one.v", o.transform_vector(v), v);
    let a = a4(s);
    vassert_eq("transform_vector ignores the translation column", va3(s.transform_vector(v)),
        [a[0][0] * v.x + a[1][0] * v.y + a[2][0] * v.z, a[0][1] * v.x + a[1][1] * v.y + a[2][1] * v.z, a[0][2] * v.x + a[1][2] * v.y + a[2][2] * v.z]);
    vcover("end");
}
fn c08_m4_inverse(s: Matrix4<R>, p: Point3<R>, v: Vector3<R>) {
    // an affine matrix (bottom row 0 0 0 1), the case in which Matrix4 is a Transform of points *and* vectors
    vassume_eq([s.x.w, s.y.w, s.z.w, s.w.w], [R(0.0), R(0.0), R(0.0), R(1.0)]);
    match Transform::<Point3<R>>::inverse_transform(&s) {
        None => { vcover("none"); vassert_eq("None => det = 0", det4(a4(s)), R(0.0)); }
        Some(i) => {
            vcover("some");
            vassert("Some => det != 0", det4(a4(s)) != R(0.0));
            vlemma_eq("N*M = I", a4(i * s), ident_n::<4>());
            vlemma_eq("inverse is affine", [i.x.w, i.y.w, i.z.w, i.w.w], [R(0.0), R(0.0), R(0.0), R(1.0)]);
            vassert_eq("inv(s(p)) = p", i.transform_point(s.transform_point(p)), p);
            vassert_eq("inv(s(v)) = v", i.transform_vector(s.transform_vector(v)), v);
            match s.inverse_transform_vector(v) {
                None => { vmust_not_reach("inverse_transform_vector exists"); }
                Some(w) => { vassert_eq("inverse_transform_vector agrees", w, i.transform_vector(v)); }
            }
        }
    }
}
// general (projective) matrices: inverse_transform is the matrix inverse, None exactly on det = 0
fn c08_m4_inverse_general(s: Matrix4<R>, v: Vector3<R>) {
    match Transform::<Point3<R>>::inverse_transform(&s) {
        None => { vcover("none"); vassert_eq("None => det = 0", det4(a4(s)), R(0.0)); }
        Some(i) => {
            vcover("some"); vassert("Some => det != 0", det4(a4(s)) != R(0.0)); vassert_eq("N*M = I", a4(i * s), ident_n::<4>()); vassert_eq("M*N = I", a4(s * i), ident_n::<4>());
            // inverse_transform_vector agrees with the inverse transform for every invertible matrix, projective ones included
            match Transform::<Point3<R>>::inverse_transform_vector(&s, v) {
                None => { vmust_not_reach("inverse_transform_vector exists"); }
                Some(w) => { vassert_eq("inverse_transform_vector agrees", w, Transform::<Point3<R>>::transform_vector(&i, v)); }
            }
        }
    }
}
fn c08_m3_3d(s: Matrix3<R>, t: Matrix3<R>, p: Point3<R>, v: Vector3<R>) {
    let c = Transform::<Point3<R>>::concat(&s, &t);
    vassert_eq("concat.p", Transform::<Point3<R>>::transform_point(&c, p), Transform::<Point3<R>>::transform_point(&s, Transform::<Point3<R>>::transform_point(&t, p)));
    vassert_eq("concat.v", Transform::<Point3<R>>::transform_vector(&c, v), Transform::<Point3<R>>::transform_vector(&s, Transform::<Point3<R>>::transform_vector(&t, v)));
    let o = <Matrix3<R> as One>::one();
    vassert_eq("one.p", Transform::<Point3<R>>::transform_point(&o, p), p);
    match Transform::<Point3<R>>::inverse_transform(&s) {
        None => { vcover("none"); vassert_eq("None => det = 0", det3(a3(s)), R(0.0)); }
        Some(i) => {
            vcover("some");
            vassert_eq("inv(s(p)) = p", Transform::<Point3<R>>::transform_point(&i, Transform::<Point3<R>>::transform_point(&s, p)), p);
            vassert_eq("s(inv(v)) = v", Transform::<Point3<R>>::transform_vector(&s, Transform::<Point3<R>>::transform_vector(&i, v)), v);
            match Transform::<Point3<R>>::inverse_transform_vector(&s, v) {
                None => { vmust_not_reach("inverse_transform_vector exists"); }
                Some(w) => { vassert_eq("inverse_transform_vector agrees", w, Transform::<Point3<R>>::transform_vector(&i, v)); }
            }
        }
    }
}
// Matrix3 as a 2-D affine transform: bottom row (0,0,1)
fn c08_m3_2d(s: Matrix3<R>, t: Matrix3<R>, p: Point2<R>, v: Vector2<R>) {
    vassume_eq([t.x.z, t.y.z, t.z.z], [R(0.0), R(0.0), R(1.0)]);
    vassume_eq([s.x.z, s.y.z, s.z.z], [R(0.0), R(0.0), R(1.0)]);
    let c = Transform::<Point2<R>>::concat(&s, &t);
    vassert_eq("concat.p", Transform::<Point2<R>>::transform_point(&c, p), Transform::<Point2<R>>::transform_point(&s, Transform::<Point2<R>>::transform_point(&t, p)));
    vassert_eq("concat.v", Transform::<Point2<R>>::transform_vector(&c, v), Transform::<Point2<R>>::transform_vector(&s, Transform::<Point2<R>>::transform_vector(&t, v)));
    let o = <Matrix3<R> as One>::one();
    vassert_eq("one.p", Transform::<Point2<R>>::transform_point(&o, p), p);
    vassert_eq("one.v", Transform::<Point2<R>>::transform_vector(&o, v), v);
    match Transform::<Point2<R>>::inverse_transform(&s) {
        None => { vcover("none"); vassert_eq("None => det = 0", det3(a3(s)), R(0.0)); }
        Some(i) => {
            vcover("some");
            vassert_eq("inv(s(p)) = p", Transform::<Point2<R>>::transform_point(&i, Transform::<Point2<R>>::transform_point(&s, p)), p);
            vassert_eq("inv(s(v)) = v", Transform::<Point2<R>>::transform_vector(&i, Transform::<Point2<R>>::transform_vector(&s, v)), v);
            match Transform::<Point2<R>>::inverse_transform_vector(&s, v) {
                None => { vmust_not_reach("inverse_transform_vector exists"); }
                Some(w) => { vassert_eq("inverse_transform_vector agrees", w, Transform::<Point2<R>>::transform_vector(&i, v)); }
            }
        }
    }
}
}
#[cfg(feature = "native")]
pub fn reg() -> Vec<(&'static str, crate::HarnessFn)> { let mut v = reg0(); v.extend(q3::reg()); v.extend(b3::reg()); v.extend(b2::reg()); v }
