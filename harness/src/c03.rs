//! C03 -- vectors as an inner-product space; cross and perp-dot products.
use crate::util::*;
use crate::*;
use cgmath::*;
use num_traits::{One, Zero};

macro_rules! any_r { ($x:expr) => { true } }
macro_rules! small_i32 { ($x:expr) => { (($x >= -1000) & ($x <= 1000)) } }
macro_rules! small_i64 { ($x:expr) => { (($x >= -100000) & ($x <= 100000)) } }
macro_rules! tiny_i32 { ($x:expr) => { (($x >= -30) & ($x <= 30)) } }

// Laws for one scalar type $S and one dimension.  `$bound` constrains integer inputs so that no
// intermediate overflows (the property's "where no overflow occurs"); for R it is `true`.
macro_rules! laws { ($S:ty, $V:ident { $($f:ident),+ }, $n:literal, $reg:ident, $ok:ident;
    $fops:ident, $few:ident, $fdot:ident, $fdiv:ident) => {
harnesses! { $reg;
fn $fops(u: $V<$S>, v: $V<$S>, a: $S, b: $S) {
    $( vassume($ok!(u.$f)); vassume($ok!(v.$f)); )+ vassume($ok!(a)); vassume($ok!(b));
    vassert_eq("u+v", u + v, $V { $($f: u.$f + v.$f),+ });
    vassert_eq("u-v", u - v, $V { $($f: u.$f - v.$f),+ });
    vassert_eq("-u", -u, $V { $($f: -u.$f),+ });
    vassert_eq("u*a", u * a, $V { $($f: u.$f * a),+ });
    vassert_eq("u+0", u + <$V<$S>>::zero(), u);
    vassert_eq("0+u", <$V<$S>>::zero() + u, u);
    vassert_eq("zero()", <$V<$S>>::zero(), $V { $($f: <$S>::zero()),+ });
    vassert_eq("from_value", <$V<$S>>::from_value(a), $V { $($f: a),+ });
    vassert_eq("(u+v)*a", (u + v) * a, u * a + v * a);
    vassert_eq("u*(a+b)", u * (a + b), u * a + u * b);
    vassert_eq("u-u", u - u, <$V<$S>>::zero());
    let mut t = u; t += v; vassert_eq("u+=v", t, u + v);
    let mut t = u; t -= v; vassert_eq("u-=v", t, u - v);
    let mut t = u; t *= a; vassert_eq("u*=a", t, u * a);
    let mut acc = <$S>::zero(); $( acc = acc + u.$f; )+
    vassert_eq("sum", u.sum(), acc);
    let mut acc = <$S>::one(); $( acc = acc * u.$f; )+
    vassert_eq("product", u.product(), acc);
    vcover("end");
}
fn $few(u: $V<$S>, v: $V<$S>, a: $S) {
    $( vassume($ok!(u.$f)); vassume($ok!(v.$f)); )+ vassume($ok!(a));
    vassert_eq("add_ew", u.add_element_wise(v), $V { $($f: u.$f + v.$f),+ });
    vassert_eq("sub_ew", u.sub_element_wise(v), $V { $($f: u.$f - v.$f),+ });
    vassert_eq("mul_ew", u.mul_element_wise(v), $V { $($f: u.$f * v.$f),+ });
    vassert_eq("add_ew_s", u.add_element_wise(a), $V { $($f: u.$f + a),+ });
    vassert_eq("sub_ew_s", u.sub_element_wise(a), $V { $($f: u.$f - a),+ });
    vassert_eq("mul_ew_s", u.mul_element_wise(a), $V { $($f: u.$f * a),+ });
    let mut t = u; t.add_assign_element_wise(v); vassert_eq("add_assign_ew", t, $V { $($f: u.$f + v.$f),+ });
    let mut t = u; t.sub_assign_element_wise(v); vassert_eq("sub_assign_ew", t, $V { $($f: u.$f - v.$f),+ });
    let mut t = u; t.mul_assign_element_wise(v); vassert_eq("mul_assign_ew", t, $V { $($f: u.$f * v.$f),+ });
    let mut t = u; t.add_assign_element_wise(a); vassert_eq("add_assign_ew_s", t, $V { $($f: u.$f + a),+ });
    let mut t = u; t.sub_assign_element_wise(a); vassert_eq("sub_assign_ew_s", t, $V { $($f: u.$f - a),+ });
    let mut t = u; t.mul_assign_element_wise(a); vassert_eq("mul_assign_ew_s", t, $V { $($f: u.$f * a),+ });
    vcover("end");
}
fn $fdot(u: $V<$S>, v: $V<$S>, w: $V<$S>, a: $S) {
    $( vassume($ok!(u.$f)); vassume($ok!(v.$f)); vassume($ok!(w.$f)); )+ vassume($ok!(a));
    let mut acc = <$S>::zero(); $( acc = acc + u.$f * v.$f; )+
    vassert_eq("dot=sum of products", u.dot(v), acc);
    vassert_eq("dot() free fn", dot(u, v), acc);
    vassert_eq("dot symmetric", u.dot(v), v.dot(u));
    vassert_eq("dot additive", (u + w).dot(v), u.dot(v) + w.dot(v));
    vassert_eq("dot homogeneous", (u * a).dot(v), a * u.dot(v));
    vassert_eq("magnitude2=dot(v,v)", u.magnitude2(), u.dot(u));
    vcover("end");
}
fn $fdiv(u: $V<$S>, v: $V<$S>, a: $S) {
    // division and remainder are compared operation for operation (no algebraic law is used)
    vassume(a != <$S>::zero()); $( vassume(v.$f != <$S>::zero()); )+
    $( vassume($ok!(u.$f)); vassume($ok!(v.$f)); )+ vassume($ok!(a));
    vassert_eq("u/a", u / a, $V { $($f: u.$f / a),+ });
    vassert_eq("u%a", u % a, $V { $($f: u.$f % a),+ });
    vassert_eq("div_ew", u.div_element_wise(v), $V { $($f: u.$f / v.$f),+ });
    vassert_eq("rem_ew", u.rem_element_wise(v), $V { $($f: u.$f % v.$f),+ });
    vassert_eq("div_ew_s", u.div_element_wise(a), $V { $($f: u.$f / a),+ });
    vassert_eq("rem_ew_s", u.rem_element_wise(a), $V { $($f: u.$f % a),+ });
    let mut t = u; t /= a; vassert_eq("u/=a", t, $V { $($f: u.$f / a),+ });
    let mut t = u; t %= a; vassert_eq("u%=a", t, $V { $($f: u.$f % a),+ });
    let mut t = u; t.div_assign_element_wise(v); vassert_eq("div_assign_ew", t, $V { $($f: u.$f / v.$f),+ });
    let mut t = u; t.rem_assign_element_wise(v); vassert_eq("rem_assign_ew", t, $V { $($f: u.$f % v.$f),+ });
    let mut t = u; t.div_assign_element_wise(a); vassert_eq("div_assign_ew_s", t, $V { $($f: u.$f / a),+ });
    let mut t = u; t.rem_assign_element_wise(a); vassert_eq("rem_assign_ew_s", t, $V { $($f: u.$f % a),+ });
    vcover("end");
}
}
}}

pub mod r1 { use super::*; laws!(R, Vector1 { x }, 1, reg, any_r; c03_ops1, c03_ew1, c03_dot1, c03_div1); }
pub mod r2 { use super::*; laws!(R, Vector2 { x, y }, 2, reg, any_r; c03_ops2, c03_ew2, c03_dot2, c03_div2); }
pub mod r3 { use super::*; laws!(R, Vector3 { x, y, z }, 3, reg, any_r; c03_ops3, c03_ew3, c03_dot3, c03_div3); }
pub mod r4 { use super::*; laws!(R, Vector4 { x, y, z, w }, 4, reg, any_r; c03_ops4, c03_ew4, c03_dot4, c03_div4); }
pub mod i2 { use super::*; laws!(i32, Vector2 { x, y }, 2, reg, small_i32; c03_i32_ops2, c03_i32_ew2, c03_i32_dot2, c03_i32_div2); }
pub mod i3 { use super::*; laws!(i32, Vector3 { x, y, z }, 3, reg, small_i32; c03_i32_ops3, c03_i32_ew3, c03_i32_dot3, c03_i32_div3); }
pub mod i4 { use super::*; laws!(i64, Vector4 { x, y, z, w }, 4, reg, small_i64; c03_i64_ops4, c03_i64_ew4, c03_i64_dot4, c03_i64_div4); }

macro_rules! cross_laws { ($S:ty, $reg:ident, $ok:ident; $fcross:ident, $fperp:ident, $funit:ident) => {
harnesses! { $reg;
fn $fcross(u: Vector3<$S>, v: Vector3<$S>, w: Vector3<$S>) {
    vassume($ok!(u.x)); vassume($ok!(u.y)); vassume($ok!(u.z)); vassume($ok!(v.x)); vassume($ok!(v.y)); vassume($ok!(v.z)); vassume($ok!(w.x)); vassume($ok!(w.y)); vassume($ok!(w.z));
    let c = u.cross(v);
    vassert_eq("cross components", c, Vector3 { x: u.y * v.z - u.z * v.y, y: u.z * v.x - u.x * v.z, z: u.x * v.y - u.y * v.x });
    vassert_eq("antisymmetry", c, -(v.cross(u)));
    vassert_eq("c.u=0", c.dot(u), <$S>::zero());
    vassert_eq("c.v=0", c.dot(v), <$S>::zero());
    vassert_eq("lagrange", c.magnitude2(), u.magnitude2() * v.magnitude2() - u.dot(v) * u.dot(v));
    vassert_eq("triple product", u.cross(v.cross(w)), v * u.dot(w) - w * u.dot(v));
    vcover("end");
}
fn $fperp(u: Vector2<$S>, v: Vector2<$S>) {
    vassume($ok!(u.x)); vassume($ok!(u.y)); vassume($ok!(v.x)); vassume($ok!(v.y));
    vassert_eq("perp_dot", u.perp_dot(v), u.x * v.y - u.y * v.x);
    vassert_eq("perp_dot antisymmetric", u.perp_dot(v), -(v.perp_dot(u)));
    vcover("end");
}
fn $funit() {
    let o = <$S>::zero(); let i = <$S>::one();
    vassert_eq("unit1", Vector1::<$S>::unit_x(), Vector1 { x: i });
    vassert_eq("unit2x", Vector2::<$S>::unit_x(), Vector2 { x: i, y: o });
    vassert_eq("unit2y", Vector2::<$S>::unit_y(), Vector2 { x: o, y: i });
    vassert_eq("unit3x", Vector3::<$S>::unit_x(), Vector3 { x: i, y: o, z: o });
    vassert_eq("unit3y", Vector3::<$S>::unit_y(), Vector3 { x: o, y: i, z: o });
    vassert_eq("unit3z", Vector3::<$S>::unit_z(), Vector3 { x: o, y: o, z: i });
    vassert_eq("unit4x", Vector4::<$S>::unit_x(), Vector4 { x: i, y: o, z: o, w: o });
    vassert_eq("unit4y", Vector4::<$S>::unit_y(), Vector4 { x: o, y: i, z: o, w: o });
    vassert_eq("unit4z", Vector4::<$S>::unit_z(), Vector4 { x: o, y: o, z: i, w: o });
    vassert_eq("unit4w", Vector4::<$S>::unit_w(), Vector4 { x: o, y: o, z: o, w: i });
    vcover("end");
}
}
}}
pub mod cr { use super::*; cross_laws!(R, reg, any_r; c03_cross, c03_perp, c03_unit); }
pub mod ci { use super::*; cross_laws!(i32, reg, tiny_i32; c03_i32_cross, c03_i32_perp, c03_i32_unit); }

#[cfg(feature = "native")]
pub fn reg() -> Vec<(&'static str, crate::HarnessFn)> {
    let mut v = r1::reg(); v.extend(r2::reg()); v.extend(r3::reg()); v.extend(r4::reg()); v.extend(i2::reg()); v.extend(i3::reg()); v.extend(i4::reg()); v.extend(cr::reg()); v.extend(ci::reg()); v
}
