//! Native replay / differential driver: `replay <harness>` reads one input vector per stdin
//! line (leaves as `f:<hex bits>`, `i:<int>`, `b:<0|1>`), runs the harness on the real build
//! and prints what every marker saw.
use mh::{Ev, Leaf, LOG};
use std::io::{self, BufRead, Write};
use std::panic;

fn parse(tok: &str) -> Leaf {
    let (k, v) = tok.split_at(2);
    match k {
        "f:" => Leaf::F(f64::from_bits(u64::from_str_radix(v.trim_start_matches("0x"), 16).expect("hex"))),
        "d:" => Leaf::F(v.parse::<f64>().expect("float")),
        "i:" => Leaf::I(v.parse::<i128>().expect("int")),
        "b:" => Leaf::B(v == "1"),
        _ => panic!("bad leaf token {}", tok),
    }
}
fn show(l: &Leaf) -> String {
    match l { Leaf::F(x) => format!("f:{:016x}", x.to_bits()), Leaf::I(x) => format!("i:{}", x), Leaf::B(b) => format!("b:{}", *b as u8) }
}
fn shows(v: &[Leaf]) -> String { v.iter().map(show).collect::<Vec<_>>().join(" ") }

fn main() {
    let args: Vec<String> = std::env::args().collect();
    let reg = mh::registry();
    if args.len() < 2 || args[1] == "--list" { for (n, _) in &reg { println!("{}", n); } return; }
    let f = match reg.iter().find(|(n, _)| *n == args[1]) { Some((_, f)) => *f, None => { eprintln!("no such harness {}", args[1]); std::process::exit(3) } };
    panic::set_hook(Box::new(|_| {}));
    let stdin = io::stdin();
    let out = io::stdout();
    let mut out = out.lock();
    for line in stdin.lock().lines() {
        let line = line.unwrap();
        let line = line.trim();
        if line.is_empty() && false { continue; }
        let leaves: Vec<Leaf> = line.split_whitespace().map(parse).collect();
        LOG.with(|l| l.borrow_mut().clear());
        let r = panic::catch_unwind(move || { let mut it = leaves.into_iter(); f(&mut it); });
        writeln!(out, "BEGIN").unwrap();
        LOG.with(|l| for e in l.borrow().iter() {
            match e {
                Ev::Assume { ok, lemma: None } => writeln!(out, "ASSUME {}", *ok as u8).unwrap(),
                Ev::Assume { ok, lemma: Some(l) } => writeln!(out, "ASSUME {} @{}", *ok as u8, l).unwrap(),
                Ev::AssumeEq { a, b, lemma: None } => writeln!(out, "ASSUMEEQ {} | {}", shows(a), shows(b)).unwrap(),
                Ev::AssumeEq { a, b, lemma: Some(l) } => writeln!(out, "ASSUMEEQ @{} {} | {}", l, shows(a), shows(b)).unwrap(),
                Ev::Assert { id, ok } => writeln!(out, "ASSERT {} {}", id.replace(' ', "_"), *ok as u8).unwrap(),
                Ev::AssertEq { id, a, b } => writeln!(out, "ASSERTEQ {} {} | {}", id.replace(' ', "_"), shows(a), shows(b)).unwrap(),
                Ev::Cover { id } => writeln!(out, "COVER {}", id.replace(' ', "_")).unwrap(),
                Ev::Out { id, v } => writeln!(out, "OUT {} {}", id.replace(' ', "_"), shows(v)).unwrap(),
            }
        });
        if r.is_err() { writeln!(out, "PANIC").unwrap(); }
        writeln!(out, "END").unwrap();
    }
}
