//! C04 -- Hamilton algebra; unit quaternions act as rotations.
use crate::util::*;
use crate::*;
use cgmath::*;

harnesses! { reg;
fn c04_ctor(w: R, x: R, y: R, z: R) {
    let q = Quaternion::new(w, x, y, z);
    vassert_eq("new: scalar first", [q.s, q.v.x, q.v.y, q.v.z], [w, x, y, z]);
    vassert_eq("from_sv", Quaternion::from_sv(w, v3(x, y, z)), q);
    vassert_eq("one()", Quaternion::<R>::one(), Quaternion::new(R(1.0), R(0.0), R(0.0), R(0.0)));
    vassert_eq("zero()", Quaternion::<R>::zero(), Quaternion::new(R(0.0), R(0.0), R(0.0), R(0.0)));
    vassert_eq("conjugate", q.conjugate(), Quaternion::new(w, -x, -y, -z));
    vcover("end");
}
fn c04_product(p: Quaternion<R>, q: Quaternion<R>) {
    vassert_eq("hamilton product", p * q, hamilton(p, q));
    vassert_eq("1*p", Quaternion::one() * p, p);
    vassert_eq("p*1", p * Quaternion::one(), p);
    vassert_eq("conj(pq)=conj(q)conj(p)", (p * q).conjugate(), q.conjugate() * p.conjugate());
    vassert_eq("|pq|^2=|p|^2|q|^2", (p * q).magnitude2(), p.magnitude2() * q.magnitude2());
    vassert_eq("magnitude2", p.magnitude2(), qnorm2(p));
    vassert_eq("dot", p.dot(q), qdot(p, q));
    vassert_eq("p*conj(p)=|p|^2", p * p.conjugate(), Quaternion::from_sv(qnorm2(p), v3(R(0.0), R(0.0), R(0.0))));
    vcover("end");
}
fn c04_ring(p: Quaternion<R>, q: Quaternion<R>, r: Quaternion<R>, a: R) {
    vassert_eq("(pq)r=p(qr)", (p * q) * r, p * (q * r));
    vassert_eq("p(q+r)", p * (q + r), p * q + p * r);
    vassert_eq("(p+q)r", (p + q) * r, p * r + q * r);
    vassert_eq("p+q", p + q, Quaternion::from_sv(p.s + q.s, v3(p.v.x + q.v.x, p.v.y + q.v.y, p.v.z + q.v.z)));
    vassert_eq("p-q", p - q, Quaternion::from_sv(p.s - q.s, v3(p.v.x - q.v.x, p.v.y - q.v.y, p.v.z - q.v.z)));
    vassert_eq("-p", -p, Quaternion::from_sv(-p.s, v3(-p.v.x, -p.v.y, -p.v.z)));
    vassert_eq("p*a", p * a, Quaternion::from_sv(p.s * a, v3(p.v.x * a, p.v.y * a, p.v.z * a)));
    vassume(a != R(0.0));
    vassert_eq("p/a", p / a, Quaternion::from_sv(p.s / a, v3(p.v.x / a, p.v.y / a, p.v.z / a)));
    // the same ring, spelled with references and in place (a sum built with += and then multiplied is still distributive)
    let mut t = q; t += r;
    vassert_eq("p(q += r)", p * t, p * q + p * r);
    let mut u = q; u -= r;
    vassert_eq("p(q -= r)", p * u, p * q - p * r);
    let mut w = p; w *= a; vassert_eq("p *= a", w, p * a);
    let mut x = p; x /= a; vassert_eq("p /= a", x, p / a);
    vassert_eq("&p * &q", &p * &q, p * q);
    vassert_eq("&p + &q", &p + &q, p + q);
    vcover("end");
}
fn c04_inverse(q: Quaternion<R>) {
    vassume(qnorm2(q) != R(0.0));
    let i = Rotation::invert(&q);
    vassert_eq("q*inv(q)=1", q * i, Quaternion::one());
    vassert_eq("inv(q)*q=1", i * q, Quaternion::one());
    vassert_eq("inv=conj/|q|^2", i, qconj(q) / qnorm2(q));
    vcover("end");
}
// q*v for every q (not only unit): v + 2 qv x (qv x v + s v)
fn c04_rotate_formula(q: Quaternion<R>, v: Vector3<R>) {
    let two = R(2.0);
    let inner = cross3(q.v, v) + v3(q.s * v.x, q.s * v.y, q.s * v.z);
    let c = cross3(q.v, inner);
    let want = v3(v.x + two * c.x, v.y + two * c.y, v.z + two * c.z);
    vassert_eq("q*v=v+2qv x(qv x v+sv)", q * v, want);
    vassert_eq("&q*&v", &q * &v, want);
    vassert_eq("rotate_vector", q.rotate_vector(v), want);
    let p = Point3::new(v.x, v.y, v.z);
    let rp = q.rotate_point(p);
    vassert_eq("rotate_point", v3(rp.x, rp.y, rp.z), want);
    vcover("end");
}
fn c04_unit_action(q: Quaternion<R>, v: Vector3<R>) {
    vassume_eq(qnorm2(q), R(1.0));
    let sandwich = hamilton(hamilton(q, Quaternion { s: R(0.0), v }), qconj(q));
    vassert_eq("q*v=vec(q(0,v)q*)", q * v, sandwich.v);
    vassert_eq("sandwich scalar part 0", sandwich.s, R(0.0));
    vassert_eq("|q*v|^2=|v|^2", dot3(q * v, q * v), dot3(v, v));
    vcover("end");
}
fn c04_unit_compose(p: Quaternion<R>, q: Quaternion<R>, v: Vector3<R>) {
    vassume_eq(qnorm2(p), R(1.0));
    vassume_eq(qnorm2(q), R(1.0));
    vassert_eq("(pq)v=p(qv)", (p * q) * v, p * (q * v));
    vcover("end");
}
fn c04_folds(p: Quaternion<R>, q: Quaternion<R>, r: Quaternion<R>) {
    let s1: Quaternion<R> = [p, q, r].iter().sum();
    let s2: Quaternion<R> = [p, q, r].into_iter().sum();
    let want = ((Quaternion::zero() + p) + q) + r;
    vassert_eq("sum of refs", s1, want);
    vassert_eq("sum of values", s2, want);
    let p1: Quaternion<R> = [p, q, r].iter().product();
    let p2: Quaternion<R> = [p, q, r].into_iter().product();
    let wantp = hamilton(hamilton(hamilton(Quaternion::one(), p), q), r);
    vassert_eq("product of refs", p1, wantp);
    vassert_eq("product of values", p2, wantp);
    vcover("end");
}
}
