//! C01 -- matrix products and the column-major, column-vector convention.
use crate::util::*;
use crate::*;
use cgmath::*;

macro_rules! per_dim { ($n:literal, $M:ident, $V:ident, $am:ident, $av:ident, $reg:ident;
    $elem:ident, $mulv:ident, $mulm:ident, $rowtr:ident, $ring:ident, $ew:ident, $ctor:ident, $assoc:ident, $refs:ident) => {
harnesses! { $reg;
// element (c, r) is the r-th component of column c; Index agrees with the field view
fn $elem(m: $M<R>) {
    let a = $am(m);
    let mut c = 0; while c < $n { let mut r = 0; while r < $n {
        vassert_eq("m[c][r]", m[c][r], a[c][r]);
        r += 1; } c += 1; }
    let cols: [[R; $n]; $n] = m.into();
    let mut c = 0; while c < $n { vassert_eq("col(c)", cols[c], a[c]); vassert_eq("m[c]", $av(m[c]), a[c]); c += 1; }
    vcover("end");
}
// A*v = sum_c column c scaled by v[c]
fn $mulv(m: $M<R>, v: $V<R>) {
    let a = $am(m); let x = $av(v);
    let got = $av(m * v);
    let mut acc = [R(0.0); $n];
    let mut c = 0; while c < $n { acc = vadd_n(acc, vscale_n(a[c], x[c])); c += 1; }
    vassert_eq("A*v=sum col*v[c]", got, acc);
    vassert_eq("A*v=row.dot", got, mulv_n(a, x));
    vcover("end");
}
// column c of A*B is A*(column c of B)
fn $mulm(a: $M<R>, b: $M<R>) {
    let p = a * b;
    let mut c = 0; while c < $n { vassert_eq("(AB)[c]=A*B[c]", $av(p[c]), $av(a * b[c])); c += 1; }
    vassert_eq("AB=index sum", $am(p), mul_n($am(a), $am(b)));
    vcover("end");
}
fn $rowtr(m: $M<R>) {
    let a = $am(m);
    let mut r = 0; while r < $n { let row = $av(m.row(r)); let mut c = 0; while c < $n { vassert_eq("row(r)[c]", row[c], a[c][r]); c += 1; } r += 1; }
    vassert_eq("transpose", $am(m.transpose()), transpose_n(a));
    let d = $av(m.diagonal());
    let mut tr = R(0.0);
    let mut i = 0; while i < $n { vassert_eq("diagonal", d[i], a[i][i]); tr = tr + a[i][i]; i += 1; }
    vassert_eq("trace", m.trace(), tr);
    vcover("end");
}
fn $ring(a: $M<R>, b: $M<R>, u: $V<R>, v: $V<R>, s: R) {
    vassert_eq("(A+B)v", $av((a + b) * v), vadd_n($av(a * v), $av(b * v)));
    vassert_eq("A(u+v)", $av(a * (u + v)), vadd_n($av(a * u), $av(a * v)));
    vassert_eq("(sA)v=s(Av)", $av((a * s) * v), vscale_n($av(a * v), s));
    vassert_eq("A(sv)=s(Av)", $av(a * (v * s)), vscale_n($av(a * v), s));
    let i = $M::<R>::identity();
    vassert_eq("IA=A", i * a, a);
    vassert_eq("AI=A", a * i, a);
    vassert_eq("Iv=v", i * v, v);
    vassert_eq("one()=identity", $M::<R>::one(), i);
    vassert_eq("A+0", a + $M::<R>::zero(), a);
    vcover("end");
}
fn $ew(a: $M<R>, b: $M<R>, s: R) {
    let x = $am(a); let y = $am(b);
    vassert_eq("A+B", $am(a + b), add_n(x, y));
    vassert_eq("A-B", $am(a - b), add_n(x, scale_n(y, R(-1.0))));
    vassert_eq("-A", $am(-a), scale_n(x, R(-1.0)));
    vassert_eq("A*s", $am(a * s), scale_n(x, s));
    let q = $am(a / s); let rm = $am(a % s);
    let mut c = 0; while c < $n { let mut r = 0; while r < $n {
        vassert_eq("A/s", q[c][r], x[c][r] / s);
        vassert_eq("A%s", rm[c][r], x[c][r] % s);
        r += 1; } c += 1; }
    let mut t = a; t += b; vassert_eq("A+=B", $am(t), add_n(x, y));
    let mut t = a; t -= b; vassert_eq("A-=B", $am(t), add_n(x, scale_n(y, R(-1.0))));
    let mut t = a; t *= s; vassert_eq("A*=s", $am(t), scale_n(x, s));
    vcover("end");
}
fn $ctor(s: R, d: $V<R>) {
    let mut idm = [[R(0.0); $n]; $n]; let mut val = [[R(0.0); $n]; $n]; let mut dia = [[R(0.0); $n]; $n];
    let dd = $av(d);
    let mut i = 0; while i < $n { idm[i][i] = R(1.0); val[i][i] = s; dia[i][i] = dd[i]; i += 1; }
    vassert_eq("identity", $am($M::<R>::identity()), idm);
    vassert_eq("from_value", $am($M::<R>::from_value(s)), val);
    vassert_eq("from_diagonal", $am($M::<R>::from_diagonal(d)), dia);
    vassert_eq("zero", $am($M::<R>::zero()), [[R(0.0); $n]; $n]);
    vcover("end");
}
fn $assoc(a: $M<R>, b: $M<R>, c: $M<R>) {
    vassert_eq("(AB)C=A(BC)", (a * b) * c, a * (b * c));
    vassert_eq("A(B+C)", a * (b + c), a * b + a * c);
    vassert_eq("(A+B)C", (a + b) * c, a * c + b * c);
    vcover("end");
}
fn $refs(a: $M<R>, b: $M<R>, v: $V<R>) {
    let p = a * b; let w = a * v;
    vassert_eq("&A*B", &a * b, p); vassert_eq("A*&B", a * &b, p); vassert_eq("&A*&B", &a * &b, p);
    vassert_eq("&A*v", &a * v, w); vassert_eq("A*&v", a * &v, w); vassert_eq("&A*&v", &a * &v, w);
    // the ring through its other spellings: in place, and folded by an iterator from the neutral elements
    let mut t = a; t += b; vassert_eq("A += B", t, a + b);
    let mut u = a; u -= b; vassert_eq("A -= B", u, a - b);
    let e: [$M<R>; 0] = [];
    vassert_eq("empty product of refs = identity", e.iter().product::<$M<R>>(), $M::<R>::identity());
    vassert_eq("empty product of values = identity", e.into_iter().product::<$M<R>>(), $M::<R>::identity());
    vassert_eq("empty sum = zero", e.iter().sum::<$M<R>>(), $M::<R>::zero());
    vassert_eq("product of [A, B]", [a, b].iter().product::<$M<R>>(), $M::<R>::identity() * a * b);
    vassert_eq("sum of [A, B]", [a, b].iter().sum::<$M<R>>(), $M::<R>::zero() + a + b);
    vcover("end");
}
}
}}
pub mod d2 { use super::*; per_dim!(2, Matrix2, Vector2, a2, va2, reg; c01_elem2, c01_mulv2, c01_mulm2, c01_rowtr2, c01_ring2, c01_ew2, c01_ctor2, c01_assoc2, c01_refs2); }
pub mod d3 { use super::*; per_dim!(3, Matrix3, Vector3, a3, va3, reg; c01_elem3, c01_mulv3, c01_mulm3, c01_rowtr3, c01_ring3, c01_ew3, c01_ctor3, c01_assoc3, c01_refs3); }
pub mod d4 { use super::*; per_dim!(4, Matrix4, Vector4, a4, va4, reg; c01_elem4, c01_mulv4, c01_mulm4, c01_rowtr4, c01_ring4, c01_ew4, c01_ctor4, c01_assoc4, c01_refs4); }

harnesses! { reg0;
fn c01_new2(a: R, b: R, c: R, d: R) {
    let m = Matrix2::new(a, b, c, d);
    vassert_eq("new2", a2(m), [[a, b], [c, d]]);
    vassert_eq("fields2", [m.x.x, m.x.y, m.y.x, m.y.y], [a, b, c, d]);
    vassert_eq("from_cols2", Matrix2::from_cols(Vector2::new(a, b), Vector2::new(c, d)), m);
    vassert_eq("index2", [m[0][0], m[0][1], m[1][0], m[1][1]], [a, b, c, d]);
    vcover("end");
}
fn c01_new3(e: [R; 9]) {
    let m = Matrix3::new(e[0], e[1], e[2], e[3], e[4], e[5], e[6], e[7], e[8]);
    vassert_eq("new3", a3(m), [[e[0], e[1], e[2]], [e[3], e[4], e[5]], [e[6], e[7], e[8]]]);
    vassert_eq("from_cols3", Matrix3::from_cols(Vector3::new(e[0], e[1], e[2]), Vector3::new(e[3], e[4], e[5]), Vector3::new(e[6], e[7], e[8])), m);
    let mut c = 0; while c < 3 { let mut r = 0; while r < 3 { vassert_eq("index3", m[c][r], e[3 * c + r]); r += 1; } c += 1; }
    vcover("end");
}
fn c01_new4(e: [R; 16]) {
    let m = Matrix4::new(e[0], e[1], e[2], e[3], e[4], e[5], e[6], e[7], e[8], e[9], e[10], e[11], e[12], e[13], e[14], e[15]);
    vassert_eq("new4", a4(m), [[e[0], e[1], e[2], e[3]], [e[4], e[5], e[6], e[7]], [e[8], e[9], e[10], e[11]], [e[12], e[13], e[14], e[15]]]);
    vassert_eq("from_cols4", Matrix4::from_cols(Vector4::new(e[0], e[1], e[2], e[3]), Vector4::new(e[4], e[5], e[6], e[7]), Vector4::new(e[8], e[9], e[10], e[11]), Vector4::new(e[12], e[13], e[14], e[15])), m);
    let mut c = 0; while c < 4 { let mut r = 0; while r < 4 { vassert_eq("index4", m[c][r], e[4 * c + r]); r += 1; } c += 1; }
    vcover("end");
}
// embeddings: block top-left, identity elsewhere
fn c01_embed(m2: Matrix2<R>, m3: Matrix3<R>) {
    let o = R(0.0); let i = R(1.0);
    let a = a2(m2); let b = a3(m3);
    vassert_eq("M2->M3", a3(Matrix3::from(m2)), [[a[0][0], a[0][1], o], [a[1][0], a[1][1], o], [o, o, i]]);
    vassert_eq("M2->M4", a4(Matrix4::from(m2)), [[a[0][0], a[0][1], o, o], [a[1][0], a[1][1], o, o], [o, o, i, o], [o, o, o, i]]);
    vassert_eq("M3->M4", a4(Matrix4::from(m3)), [[b[0][0], b[0][1], b[0][2], o], [b[1][0], b[1][1], b[1][2], o], [b[2][0], b[2][1], b[2][2], o], [o, o, o, i]]);
    vcover("end");
}
// scaling / translation constructors act on points as s.p + t, on vectors as s.v
fn c01_affine3(s: R, sx: R, sy: R, sz: R, t: Vector3<R>, p: Point3<R>, v: Vector3<R>) {
    let ms = Matrix4::from_scale(s);
    vassert_eq("scale.p", ms.transform_point(p), Point3::new(s * p.x, s * p.y, s * p.z));
    vassert_eq("scale.v", ms.transform_vector(v), Vector3::new(s * v.x, s * v.y, s * v.z));
    let mn = Matrix4::from_nonuniform_scale(sx, sy, sz);
    vassert_eq("nscale.p", mn.transform_point(p), Point3::new(sx * p.x, sy * p.y, sz * p.z));
    vassert_eq("nscale.v", mn.transform_vector(v), Vector3::new(sx * v.x, sy * v.y, sz * v.z));
    let mt = Matrix4::from_translation(t);
    vassert_eq("transl.p", mt.transform_point(p), Point3::new(p.x + t.x, p.y + t.y, p.z + t.z));
    vassert_eq("transl.v", mt.transform_vector(v), v);
    // as homogeneous products
    vassert_eq("transl*hom", mt * p.to_homogeneous(), Vector4::new(p.x + t.x, p.y + t.y, p.z + t.z, R(1.0)));
    vassert_eq("transl*dir", mt * v.extend(R(0.0)), v.extend(R(0.0)));
    // Matrix3 as a 3-D linear map
    let m3 = Matrix3::from_diagonal(Vector3::new(sx, sy, sz));
    vassert_eq("m3.p", Transform::<Point3<R>>::transform_point(&m3, p), Point3::new(sx * p.x, sy * p.y, sz * p.z));
    vassert_eq("m3.v", Transform::<Point3<R>>::transform_vector(&m3, v), Vector3::new(sx * v.x, sy * v.y, sz * v.z));
    let (o, i) = (R(0.0), R(1.0));
    vassert_eq("Matrix4::from_scale entries", a4(ms), [[s, o, o, o], [o, s, o, o], [o, o, s, o], [o, o, o, i]]);
    vassert_eq("Matrix4::from_nonuniform_scale entries", a4(mn), [[sx, o, o, o], [o, sy, o, o], [o, o, sz, o], [o, o, o, i]]);
    vassert_eq("Matrix4::from_translation entries", a4(mt), [[i, o, o, o], [o, i, o, o], [o, o, i, o], [t.x, t.y, t.z, i]]);
    vassert_eq("Matrix3::from_scale (3-D) = from_nonuniform_scale(s, s)", a3(Matrix3::from_scale(s)), a3(Matrix3::from_nonuniform_scale(s, s)));
    vcover("end");
}
fn c01_affine2(s: R, sx: R, sy: R, t: Vector2<R>, p: Point2<R>, v: Vector2<R>) {
    let ms = Matrix3::from_scale(s);
    vassert_eq("scale.p", Transform::<Point2<R>>::transform_point(&ms, p), Point2::new(s * p.x, s * p.y));
    vassert_eq("scale.v", Transform::<Point2<R>>::transform_vector(&ms, v), Vector2::new(s * v.x, s * v.y));
    let mn = Matrix3::from_nonuniform_scale(sx, sy);
    vassert_eq("nscale.p", Transform::<Point2<R>>::transform_point(&mn, p), Point2::new(sx * p.x, sy * p.y));
    vassert_eq("nscale.v", Transform::<Point2<R>>::transform_vector(&mn, v), Vector2::new(sx * v.x, sy * v.y));
    let mt = Matrix3::from_translation(t);
    vassert_eq("transl.p", Transform::<Point2<R>>::transform_point(&mt, p), Point2::new(p.x + t.x, p.y + t.y));
    vassert_eq("transl.v", Transform::<Point2<R>>::transform_vector(&mt, v), v);
    // and entry by entry: these are homogeneous 2-D matrices, the last diagonal entry is 1 (not the scale factor)
    let (o, i) = (R(0.0), R(1.0));
    vassert_eq("Matrix3::from_scale entries", a3(ms), [[s, o, o], [o, s, o], [o, o, i]]);
    vassert_eq("Matrix3::from_nonuniform_scale entries", a3(mn), [[sx, o, o], [o, sy, o], [o, o, i]]);
    vassert_eq("Matrix3::from_translation entries", a3(mt), [[i, o, o], [o, i, o], [t.x, t.y, i]]);
    vcover("end");
}
// a general Matrix4 acts on points with the perspective divide and on vectors without translation
fn c01_concat(a3_: Matrix3<R>, b3: Matrix3<R>, a4_: Matrix4<R>, b4: Matrix4<R>) {
    vassert_eq("concat3(2d)", a3(Transform::<Point2<R>>::concat(&a3_, &b3)), mul_n(a3(a3_), a3(b3)));
    vassert_eq("concat3(3d)", a3(Transform::<Point3<R>>::concat(&a3_, &b3)), mul_n(a3(a3_), a3(b3)));
    vassert_eq("concat4", a4(Transform::<Point3<R>>::concat(&a4_, &b4)), mul_n(a4(a4_), a4(b4)));
    vcover("end");
}
fn c01_m4_transform(m: Matrix4<R>, p: Point3<R>, v: Vector3<R>) {
    let a = a4(m);
    let h = mulv_n(a, [p.x, p.y, p.z, R(1.0)]);
    vassume(h[3] != R(0.0));
    let q = m.transform_point(p);
    vassert_eq("m4.p", [q.x, q.y, q.z], [h[0] / h[3], h[1] / h[3], h[2] / h[3]]);
    let d = mulv_n(a, [v.x, v.y, v.z, R(0.0)]);
    vassert_eq("m4.v", va3(m.transform_vector(v)), [d[0], d[1], d[2]]);
    vcover("end");
}
}
#[cfg(feature = "native")]
pub fn reg() -> Vec<(&'static str, crate::HarnessFn)> { let mut v = reg0(); v.extend(d2::reg()); v.extend(d3::reg()); v.extend(d4::reg()); v }
