//! C09 -- look_at / look_to build rigid view transforms with the documented handedness.
use crate::util::*;
use crate::*;
use cgmath::*;

#[inline(always)] fn rot_of(m: Matrix4<R>) -> [[R; 3]; 3] { let a = a4(m); [[a[0][0], a[0][1], a[0][2]], [a[1][0], a[1][1], a[1][2]], [a[2][0], a[2][1], a[2][2]]] }
#[inline(always)] fn general_position(d: Vector3<R>, up: Vector3<R>) { vassume(dot3(d, d) != R(0.0)); let c = cross3(d, up); vassume(dot3(c, c) != R(0.0)); }

// rigid-motion obligations for a 3x3 rotation block `r` (as m[c][r]) that should send d to sign*z and up into x = 0, y >= 0
macro_rules! rigid3 { ($r:expr, $d:expr, $up:expr, $zsign:expr) => {{
    let r = $r; let d = $d; let up = $up;
    vassert_eq("R^T R = I", mul_n(transpose_n(r), r), ident_n::<3>());
    vassert_eq("det R = 1", det3(r), R(1.0));
    let rd = mulv_n(r, va3(d));
    vassert_eq("(R d).x = 0", rd[0], R(0.0));
    vassert_eq("(R d).y = 0", rd[1], R(0.0));
    vassert("(R d).z has the documented sign", $zsign * rd[2] > R(0.0));
    let ru = mulv_n(r, va3(up));
    vassert_eq("(R up).x = 0", ru[0], R(0.0));
    vassert("(R up).y >= 0", ru[1] >= R(0.0));
}}}

// proof script for the doubly normalised `up` row of Matrix3::look_to_lh: |dn x side| = 1, so the second
// normalisation is the identity.  Every step is a solver-checked lemma on the code's own terms.
macro_rules! up_row_lemmas { ($d:expr, $up:expr) => {{
    let dn = $d.normalize(); let side = $up.cross(dn).normalize(); let u0 = dn.cross(side);
    vlemma_eq("|dn|^2=1", dn.magnitude2(), R(1.0));
    vlemma_eq("|side|^2=1", side.magnitude2(), R(1.0));
    vlemma_eq("dn.side=0", dn.dot(side), R(0.0));
    vlemma_eq("lagrange: |dn x side|^2 = |dn|^2 |side|^2 - (dn.side)^2", u0.magnitude2(), dn.magnitude2() * side.magnitude2() - dn.dot(side) * dn.dot(side));
    vlemma_eq("|dn x side|^2=1", u0.magnitude2(), R(1.0));
    vlemma_eq("|dn x side|=1", u0.magnitude(), R(1.0));
}}}

harnesses! { reg;
fn c09_m4_look_to_rh(eye: Point3<R>, d: Vector3<R>, up: Vector3<R>) {
    general_position(d, up);
    let m = Matrix4::look_to_rh(eye, d, up);
    rigid3!(rot_of(m), d, up, R(-1.0));
    let a = a4(m);
    vassert_eq("bottom row", [a[0][3], a[1][3], a[2][3], a[3][3]], [R(0.0), R(0.0), R(0.0), R(1.0)]);
    vassert_eq("eye -> origin", m.transform_point(eye), Point3::new(R(0.0), R(0.0), R(0.0)));
    vassert_eq("eye -> origin (homogeneous)", m * eye.to_homogeneous(), Vector4::new(R(0.0), R(0.0), R(0.0), R(1.0)));
    vcover("end");
}
fn c09_m4_look_to_lh(eye: Point3<R>, d: Vector3<R>, up: Vector3<R>) {
    general_position(d, up);
    let m = Matrix4::look_to_lh(eye, d, up);
    rigid3!(rot_of(m), d, up, R(1.0));
    let a = a4(m);
    vassert_eq("bottom row", [a[0][3], a[1][3], a[2][3], a[3][3]], [R(0.0), R(0.0), R(0.0), R(1.0)]);
    vassert_eq("eye -> origin", m.transform_point(eye), Point3::new(R(0.0), R(0.0), R(0.0)));
    vcover("end");
}
fn c09_m3_look_to(d: Vector3<R>, up: Vector3<R>) {
    general_position(d, up);
    up_row_lemmas!(d, up);
    rigid3!(a3(Matrix3::look_to_lh(d, up)), d, up, R(1.0));
    vcover("end");
}
fn c09_m3_look_to_rh(d: Vector3<R>, up: Vector3<R>) {
    general_position(d, up);
    up_row_lemmas!(-d, up);
    rigid3!(a3(Matrix3::look_to_rh(d, up)), d, up, R(-1.0));
    vcover("end");
}
// look_at_*(eye, center, up) = look_to_*(eye, center - eye, up), all entry points
fn c09_at_equals_to(eye: Point3<R>, center: Point3<R>, up: Vector3<R>) {
    let d = center - eye;
    vassert_eq("M4 look_at_rh", Matrix4::look_at_rh(eye, center, up), Matrix4::look_to_rh(eye, d, up));
    vassert_eq("M4 look_at_lh", Matrix4::look_at_lh(eye, center, up), Matrix4::look_to_lh(eye, d, up));
    vassert_eq("M4 look_at (deprecated) = rh", Matrix4::look_at(eye, center, up), Matrix4::look_to_rh(eye, d, up));
    vassert_eq("M4 look_at_dir (deprecated) = look_to_rh", Matrix4::look_at_dir(eye, d, up), Matrix4::look_to_rh(eye, d, up));
    vassert_eq("M4 Transform::look_at_rh", <Matrix4<R> as Transform<Point3<R>>>::look_at_rh(eye, center, up), Matrix4::look_to_rh(eye, d, up));
    vassert_eq("M4 Transform::look_at_lh", <Matrix4<R> as Transform<Point3<R>>>::look_at_lh(eye, center, up), Matrix4::look_to_lh(eye, d, up));
    vassert_eq("M3 Transform::look_at_rh", <Matrix3<R> as Transform<Point3<R>>>::look_at_rh(eye, center, up), Matrix3::look_to_rh(d, up));
    vassert_eq("M3 Transform::look_at_lh", <Matrix3<R> as Transform<Point3<R>>>::look_at_lh(eye, center, up), Matrix3::look_to_lh(d, up));
    vassert_eq("M3 look_at (deprecated) = lh", Matrix3::look_at(d, up), Matrix3::look_to_lh(d, up));
    vcover("end");
}
// same handedness => same rotation block, Matrix4 vs Matrix3 vs Basis3
fn c09_agree_rh(eye: Point3<R>, d: Vector3<R>, up: Vector3<R>) {
    general_position(d, up);
    up_row_lemmas!(-d, up);
    let m4 = Matrix4::look_to_rh(eye, d, up);
    let m3 = Matrix3::look_to_rh(d, up);
    vassert_eq("M4 rotation block = M3 (rh)", rot_of(m4), a3(m3));
    vcover("end");
}
fn c09_agree_lh(eye: Point3<R>, d: Vector3<R>, up: Vector3<R>) {
    general_position(d, up);
    up_row_lemmas!(d, up);
    let m4 = Matrix4::look_to_lh(eye, d, up);
    let m3 = Matrix3::look_to_lh(d, up);
    vassert_eq("M4 rotation block = M3 (lh)", rot_of(m4), a3(m3));
    let b: Basis3<R> = Rotation::look_at(d, up);
    vassert_eq("Basis3::look_at = M3 lh", Matrix3::from(b), m3);
    vcover("end");
}
// Rotation::look_at for Quaternion is the quaternion of the left-handed matrix (same code path, compared structurally)
fn c09_quaternion(d: Vector3<R>, up: Vector3<R>) {
    general_position(d, up);
    let q: Quaternion<R> = Rotation::look_at(d, up);
    let want: Quaternion<R> = Matrix3::look_to_lh(d, up).into();
    vassert_eq("Quaternion::look_at = Quaternion::from(M3 lh)", q, want);
    vcover("end");
}
// Decomposed: rotation is Rotation::look_at of the viewing direction (lh) or its opposite (rh); eye -> origin
fn c09_decomposed_basis3_rh(eye: Point3<R>, center: Point3<R>, up: Vector3<R>) {
    let d = center - eye;
    general_position(d, up);
    up_row_lemmas!(eye - center, up);
    let t: Decomposed<Vector3<R>, Basis3<R>> = Transform::look_at_rh(eye, center, up);
    vassert_eq("scale = 1", t.scale, R(1.0));
    vlemma_eq("rot = M3 rh", a3(Matrix3::from(t.rot)), a3(Matrix3::look_to_rh(d, up)));
    vassert_eq("eye -> origin", t.transform_point(eye), Point3::new(R(0.0), R(0.0), R(0.0)));
    vlemma_eq("M3 rh = M4 rh block", a3(Matrix3::look_to_rh(d, up)), rot_of(Matrix4::look_to_rh(eye, d, up)));
    vassert_eq("as matrix = M4 look_at_rh", Matrix4::from(t), Matrix4::look_at_rh(eye, center, up));
    vcover("end");
}
fn c09_decomposed_basis3_lh(eye: Point3<R>, center: Point3<R>, up: Vector3<R>) {
    let d = center - eye;
    general_position(d, up);
    up_row_lemmas!(d, up);
    let l: Decomposed<Vector3<R>, Basis3<R>> = Transform::look_at_lh(eye, center, up);
    vassert_eq("lh: scale = 1", l.scale, R(1.0));
    vlemma_eq("lh: rot = M3 lh", a3(Matrix3::from(l.rot)), a3(Matrix3::look_to_lh(d, up)));
    vassert_eq("lh: eye -> origin", l.transform_point(eye), Point3::new(R(0.0), R(0.0), R(0.0)));
    vlemma_eq("M3 lh = M4 lh block", a3(Matrix3::look_to_lh(d, up)), rot_of(Matrix4::look_to_lh(eye, d, up)));
    vassert_eq("lh: as matrix = M4 look_at_lh", Matrix4::from(l), Matrix4::look_at_lh(eye, center, up));
    vcover("end");
}
fn c09_decomposed_quat_rh(eye: Point3<R>, center: Point3<R>, up: Vector3<R>) {
    let d = center - eye;
    general_position(d, up);
    let t: Decomposed<Vector3<R>, Quaternion<R>> = Transform::look_at_rh(eye, center, up);
    let q: Quaternion<R> = Rotation::look_at(eye - center, up);
    vassert_eq("rh: rot", t.rot, q);
    vassert_eq("rh: disp", t.disp, q * (Point3::new(R(0.0), R(0.0), R(0.0)) - eye));
    vassert_eq("rh: scale", t.scale, R(1.0));
    vcover("end");
}
fn c09_decomposed_quat_lh(eye: Point3<R>, center: Point3<R>, up: Vector3<R>) {
    let d = center - eye;
    general_position(d, up);
    let l: Decomposed<Vector3<R>, Quaternion<R>> = Transform::look_at_lh(eye, center, up);
    let ql: Quaternion<R> = Rotation::look_at(center - eye, up);
    vassert_eq("lh: rot", l.rot, ql);
    vassert_eq("lh: disp", l.disp, ql * (Point3::new(R(0.0), R(0.0), R(0.0)) - eye));
    vassert_eq("lh: scale", l.scale, R(1.0));
    vcover("end");
}
// 2-D
fn c09_look_at_2d(d: Vector2<R>, up: Vector2<R>) {
    vassume(dot2(d, d) != R(0.0));
    let m = Matrix2::look_at(d, up);
    let a = a2(m);
    let md = d.magnitude();
    vassert_eq("col1 * |d| = d", [a[0][0] * md, a[0][1] * md], [d.x, d.y]);
    vassert_eq("columns orthonormal", mul_n(transpose_n(a), a), ident_n::<2>());
    vassert("col2 on the side of up", a[1][0] * up.x + a[1][1] * up.y >= R(0.0));
    if up.x * d.y >= up.y * d.x { vcover("flip"); } else { vcover("no flip"); }
    let b: Basis2<R> = Rotation::look_at(d, up);
    let mb: &Matrix2<R> = b.as_ref();
    vassert_eq("Basis2::look_at = Matrix2::look_at", *mb, m);
    vassert_eq("look_at_stable(flip)", Matrix2::look_at_stable(d, up.x * d.y >= up.y * d.x), m);
    vcover("end");
}
fn c09_m3_2d(eye: Point2<R>, center: Point2<R>, up: Vector2<R>) {
    let d = center - eye;
    vassert_eq("lh", <Matrix3<R> as Transform<Point2<R>>>::look_at_lh(eye, center, up), Matrix3::from(Matrix2::look_at(d, up)));
    vassert_eq("rh", <Matrix3<R> as Transform<Point2<R>>>::look_at_rh(eye, center, up), Matrix3::from(Matrix2::look_at(eye - center, up)));
    vcover("end");
}
}
