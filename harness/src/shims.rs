//! Shims: rustc's MIR inliner stops at nesting depth 5, so a deep generic call chain can leave one
//! cgmath call un-inlined, and the dump only prints bodies of *this* crate.  Each shim is a local
//! non-generic wrapper around exactly that cgmath function; its printed body is cgmath's code
//! (inlined one level), and the executor enters it when it meets the un-inlined call
//! (table: mirsmt/machine.py SHIMS).  Differential validation covers the shims like any other code.
use crate::*;
use cgmath::*;

#[inline(never)] pub fn shim_quat_rotate_vector(q: &Quaternion<R>, v: Vector3<R>) -> Vector3<R> { q.rotate_vector(v) }
#[inline(never)] pub fn shim_basis3_rotate_vector(b: &Basis3<R>, v: Vector3<R>) -> Vector3<R> { b.rotate_vector(v) }
#[inline(never)] pub fn shim_basis2_rotate_vector(b: &Basis2<R>, v: Vector2<R>) -> Vector2<R> { b.rotate_vector(v) }
#[inline(never)] pub fn shim_quat_mul_v3(q: Quaternion<R>, v: Vector3<R>) -> Vector3<R> { q * v }
#[inline(never)] pub fn shim_quat_mul_quat(p: Quaternion<R>, q: Quaternion<R>) -> Quaternion<R> { p * q }
#[inline(never)] pub fn shim_m3_mul_v3(m: Matrix3<R>, v: Vector3<R>) -> Vector3<R> { m * v }
#[inline(never)] pub fn shim_m3_mul_m3(a: Matrix3<R>, b: Matrix3<R>) -> Matrix3<R> { a * b }
#[inline(never)] pub fn shim_m4_mul_m4(a: Matrix4<R>, b: Matrix4<R>) -> Matrix4<R> { a * b }
#[inline(never)] pub fn shim_m4_mul_v4(a: Matrix4<R>, b: Vector4<R>) -> Vector4<R> { a * b }
#[inline(never)] pub fn shim_quat_invert(q: &Quaternion<R>) -> Quaternion<R> { Rotation::invert(q) }
#[inline(never)] pub fn shim_basis3_invert(q: &Basis3<R>) -> Basis3<R> { Rotation::invert(q) }
#[inline(never)] pub fn shim_basis2_invert(q: &Basis2<R>) -> Basis2<R> { Rotation::invert(q) }
#[inline(never)] pub fn shim_m3_invert(m: &Matrix3<R>) -> Option<Matrix3<R>> { m.invert() }
#[inline(never)] pub fn shim_m4_invert(m: &Matrix4<R>) -> Option<Matrix4<R>> { m.invert() }
#[inline(never)] pub fn shim_m2_invert(m: &Matrix2<R>) -> Option<Matrix2<R>> { m.invert() }
#[inline(never)] pub fn shim_m3_from_quat(q: Quaternion<R>) -> Matrix3<R> { q.into() }
#[inline(never)] pub fn shim_quat_from_m3(m: Matrix3<R>) -> Quaternion<R> { m.into() }
#[inline(never)] pub fn shim_v3_normalize(v: Vector3<R>) -> Vector3<R> { v.normalize() }
#[inline(never)] pub fn shim_quat_normalize(v: Quaternion<R>) -> Quaternion<R> { v.normalize() }
