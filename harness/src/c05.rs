//! C05 -- Quaternion, Basis3, Matrix3 and Matrix4 describe one and the same rotation.
use crate::util::*;
use crate::*;
use cgmath::*;

#[inline(always)] fn qeq(a: Quaternion<R>, b: Quaternion<R>) -> bool { (a.s == b.s) & (a.v.x == b.v.x) & (a.v.y == b.v.y) & (a.v.z == b.v.z) }
#[inline(always)] fn qneg(a: Quaternion<R>) -> Quaternion<R> { Quaternion { s: -a.s, v: v3(-a.v.x, -a.v.y, -a.v.z) } }

harnesses! { reg;
// the converted matrix is the textbook rotation matrix of q; same vector through all four representations
fn c05_same_rotation(q: Quaternion<R>, v: Vector3<R>) {
    vassume_eq(qnorm2(q), R(1.0));
    let m3: Matrix3<R> = q.into();
    let m4: Matrix4<R> = q.into();
    let b3: Basis3<R> = q.into();
    let b3b = Basis3::from_quaternion(&q);
    let want = q * v;
    vassert_eq("m3 entries", a3(m3), qmat(q));
    vassert_eq("m3*v", m3 * v, want);
    vassert_eq("basis3.rotate_vector", b3.rotate_vector(v), want);
    vassert_eq("from_quaternion", *b3b.as_ref(), m3);
    vassert_eq("basis3 as matrix", Matrix3::from(b3), m3);
    vassert_eq("m4*(v,0)", (m4 * v.extend(R(0.0))).truncate(), want);
    vassert_eq("m4.transform_vector", Transform::<Point3<R>>::transform_vector(&m4, v), want);
    vassert_eq("m3.transform_vector", Transform::<Point3<R>>::transform_vector(&m3, v), want);
    vassert_eq("m4 = embed m3", m4, Matrix4::from(m3));
    let p = Point3::new(v.x, v.y, v.z);
    vassert_eq("basis3.rotate_point", b3.rotate_point(p), Point3::from_vec(want));
    vcover("end");
}
fn c05_orthonormal(q: Quaternion<R>) {
    vassume_eq(qnorm2(q), R(1.0));
    let m3: Matrix3<R> = q.into();
    vassert_eq("M^T M = I", a3(m3.transpose() * m3), ident_n::<3>());
    vassert_eq("M M^T = I", a3(m3 * m3.transpose()), ident_n::<3>());
    vassert_eq("det M = 1", det3(a3(m3)), R(1.0));
    vassert_eq("determinant() = 1", m3.determinant(), R(1.0));
    vcover("end");
}
// without the unit assumption the same formulas are used: entries are the polynomial ones for every q
fn c05_matrix_formula_any_q(q: Quaternion<R>) {
    let m3: Matrix3<R> = q.into();
    vassert_eq("m3 entries (any q)", a3(m3), qmat(q));
    vcover("end");
}
// Floating-point "unit" quaternions are unit only up to rounding: for |q|^2 within 1e-6 of 1 all conversions still give
// the same matrix (they are the same polynomials in q), entry for entry.  This is what exposes a shortcut such as
// "scalar part == 1 => identity", which is right for exactly unit q and wrong for every representable neighbour.
fn c05_near_unit(q: Quaternion<R>, v: Vector3<R>) {
    let n2 = qnorm2(q);
    vassume((n2 >= R(1.0 - 1e-6)) & (n2 <= R(1.0 + 1e-6)));
    let m3: Matrix3<R> = q.into();
    let b3: Basis3<R> = q.into();
    let b3b = Basis3::from_quaternion(&q);
    let m4: Matrix4<R> = q.into();
    vassert_eq("Matrix3::from(q) entries", a3(m3), qmat(q));
    vassert_eq("Basis3::from(q) = Matrix3::from(q)", Matrix3::from(b3), m3);
    vassert_eq("Basis3::from_quaternion = Matrix3::from(q)", *b3b.as_ref(), m3);
    vassert_eq("Matrix4::from(q) = embed Matrix3::from(q)", m4, Matrix4::from(m3));
    vassert_eq("Basis3 rotates like Matrix3", b3.rotate_vector(v), m3 * v);
    vcover("end");
}
fn c05_composition(p: Quaternion<R>, q: Quaternion<R>) {
    vassume_eq(qnorm2(p), R(1.0));
    vassume_eq(qnorm2(q), R(1.0));
    let mp: Matrix3<R> = p.into(); let mq: Matrix3<R> = q.into(); let mpq: Matrix3<R> = (p * q).into();
    vassert_eq("M(pq)=M(p)M(q)", mpq, mp * mq);
    let bp: Basis3<R> = p.into(); let bq: Basis3<R> = q.into(); let bpq: Basis3<R> = (p * q).into();
    vassert_eq("Basis3: B(pq)=B(p)B(q)", Matrix3::from(bpq), Matrix3::from(bp * bq));
    vassert_eq("Basis3 &*&", Matrix3::from(&bp * &bq), mp * mq);
    let m4p: Matrix4<R> = p.into(); let m4q: Matrix4<R> = q.into(); let m4pq: Matrix4<R> = (p * q).into();
    vassert_eq("M4(pq)=M4(p)M4(q)", m4pq, m4p * m4q);
    // every way of composing spells the same product: references, Transform::concat, in-place concat_self, Rotation for Basis3
    vassert_eq("M4 &*&", &m4p * &m4q, m4pq);
    vassert_eq("M4 concat", Transform::<Point3<R>>::concat(&m4p, &m4q), m4pq);
    let mut acc4 = m4p; Transform::<Point3<R>>::concat_self(&mut acc4, &m4q);
    vassert_eq("M4 concat_self", acc4, m4pq);
    let mut acc3 = mp; Transform::<Point2<R>>::concat_self(&mut acc3, &mq);
    vassert_eq("M3 concat_self", acc3, mpq);
    // Matrix3 is a transform twice over (of Point2, homogeneous, and of Point3, linear): both impls compose alike
    vassert_eq("M3 concat (as Transform<Point3>)", Transform::<Point3<R>>::concat(&mp, &mq), mpq);
    vassert_eq("M3 concat (as Transform<Point2>)", Transform::<Point2<R>>::concat(&mp, &mq), mpq);
    let mut acc33 = mp; Transform::<Point3<R>>::concat_self(&mut acc33, &mq);
    vassert_eq("M3 concat_self (as Transform<Point3>)", acc33, mpq);
    let folded: Basis3<R> = [bp, bq].iter().product();
    vassert_eq("Basis3 product", Matrix3::from(folded), mpq);
    let qfold: Quaternion<R> = [p, q].iter().product();
    vassert_eq("Quaternion product", Matrix3::from(qfold), mpq);
    vcover("end");
}
// matrix -> quaternion returns q or -q in each of the four branches
fn c05_roundtrip(q: Quaternion<R>) {
    vassume_eq(qnorm2(q), R(1.0));
    let m: Matrix3<R> = q.into();
    let r: Quaternion<R> = m.into();
    let a = a3(m);
    let trace = a[0][0] + a[1][1] + a[2][2];
    if trace >= R(0.0) { vcover("branch trace>=0"); }
    else if (a[0][0] > a[1][1]) & (a[0][0] > a[2][2]) { vcover("branch m00 largest"); }
    else if a[1][1] > a[2][2] { vcover("branch m11 largest"); }
    else { vcover("branch m22 largest"); }
    vassert("r = q or r = -q", qeq(r, q) | qeq(r, qneg(q)));
    vassert_eq("|r|=1", qnorm2(r), R(1.0));
    // and the sign convention: the component chosen by the branch is non-negative
    let b: Basis3<R> = q.into();
    let rb: Quaternion<R> = b.into();
    vassert("via Basis3", qeq(rb, r));
    vcover("end");
}
// the four branches one at a time, with the branch condition assumed (so each is provably reached)
fn c05_roundtrip_b0(q: Quaternion<R>) {
    vassume_eq(qnorm2(q), R(1.0));
    let m: Matrix3<R> = q.into(); let a = a3(m);
    vassume(a[0][0] + a[1][1] + a[2][2] >= R(0.0));
    let r: Quaternion<R> = m.into();
    vlemma("b0: r = q or -q", qeq(r, q) | qeq(r, qneg(q)));
    // hence the round trip matrix -> quaternion -> matrix is the identity on rotation matrices (used by C09)
    vassert_eq("b0: M(Quaternion::from(M(q))) = M(q)", a3(Matrix3::from(r)), qmat(r));
    vassert_eq("b0: M(r) = M(q)", qmat(r), a);
    vassert("b0: w >= 0", r.s >= R(0.0));
    vcover("end");
}
fn c05_roundtrip_b1(q: Quaternion<R>) {
    vassume_eq(qnorm2(q), R(1.0));
    let m: Matrix3<R> = q.into(); let a = a3(m);
    vassume(a[0][0] + a[1][1] + a[2][2] < R(0.0)); vassume(a[0][0] > a[1][1]); vassume(a[0][0] > a[2][2]);
    let r: Quaternion<R> = m.into();
    vlemma("b1: r = q or -q", qeq(r, q) | qeq(r, qneg(q)));
    // hence the round trip matrix -> quaternion -> matrix is the identity on rotation matrices (used by C09)
    vassert_eq("b1: M(Quaternion::from(M(q))) = M(q)", a3(Matrix3::from(r)), qmat(r));
    vassert_eq("b1: M(r) = M(q)", qmat(r), a);
    vassert("b1: x >= 0", r.v.x >= R(0.0));
    vcover("end");
}
fn c05_roundtrip_b2(q: Quaternion<R>) {
    vassume_eq(qnorm2(q), R(1.0));
    let m: Matrix3<R> = q.into(); let a = a3(m);
    vassume(a[0][0] + a[1][1] + a[2][2] < R(0.0)); vassume(!((a[0][0] > a[1][1]) & (a[0][0] > a[2][2]))); vassume(a[1][1] > a[2][2]);
    let r: Quaternion<R> = m.into();
    vlemma("b2: r = q or -q", qeq(r, q) | qeq(r, qneg(q)));
    // hence the round trip matrix -> quaternion -> matrix is the identity on rotation matrices (used by C09)
    vassert_eq("b2: M(Quaternion::from(M(q))) = M(q)", a3(Matrix3::from(r)), qmat(r));
    vassert_eq("b2: M(r) = M(q)", qmat(r), a);
    vassert("b2: y >= 0", r.v.y >= R(0.0));
    vcover("end");
}
fn c05_roundtrip_b3(q: Quaternion<R>) {
    vassume_eq(qnorm2(q), R(1.0));
    let m: Matrix3<R> = q.into(); let a = a3(m);
    vassume(a[0][0] + a[1][1] + a[2][2] < R(0.0)); vassume(!((a[0][0] > a[1][1]) & (a[0][0] > a[2][2]))); vassume(!(a[1][1] > a[2][2]));
    let r: Quaternion<R> = m.into();
    vlemma("b3: r = q or -q", qeq(r, q) | qeq(r, qneg(q)));
    // hence the round trip matrix -> quaternion -> matrix is the identity on rotation matrices (used by C09)
    vassert_eq("b3: M(Quaternion::from(M(q))) = M(q)", a3(Matrix3::from(r)), qmat(r));
    vassert_eq("b3: M(r) = M(q)", qmat(r), a);
    vassert("b3: z >= 0", r.v.z >= R(0.0));
    vcover("end");
}
}
