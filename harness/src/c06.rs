//! C06 -- angle and axis-angle constructors give proper right-handed rotations.
use crate::util::*;
use crate::*;
use cgmath::*;

#[inline(always)] fn unit3(a: Vector3<R>) { vassume_eq(dot3(a, a), R(1.0)); }
// Rodrigues' formula, component by component, from the same opaque sin/cos symbols the code uses
#[inline(always)] fn rodrigues<A: Angle<Unitless = R>>(a: Vector3<R>, t: A, v: Vector3<R>) -> Vector3<R> {
    let (s, c) = (A::sin(t), A::cos(t));
    let axv = cross3(a, v); let k = dot3(a, v) * (R(1.0) - c);
    v3(v.x * c + axv.x * s + a.x * k, v.y * c + axv.y * s + a.y * k, v.z * c + axv.z * s + a.z * k)
}

macro_rules! axis_angle { ($reg:ident, $A:ident; $fm3:ident, $fm4:ident, $fb3:ident, $fq:ident, $faxes:ident, $f2d:ident) => {
harnesses! { $reg;
fn $fm3(a: Vector3<R>, t: R, v: Vector3<R>) {
    unit3(a);
    let m = Matrix3::from_axis_angle(a, $A(t));
    vassert_eq("Rodrigues", m * v, rodrigues(a, $A(t), v));
    vassert_eq("fixes the axis", m * a, a);
    vassert_eq("orthonormal", a3(m.transpose() * m), ident_n::<3>());
    vassert_eq("det = 1", det3(a3(m)), R(1.0));
    vcover("end");
}
fn $fm4(a: Vector3<R>, t: R, v: Vector3<R>) {
    unit3(a);
    let m = Matrix4::from_axis_angle(a, $A(t));
    vassert_eq("Rodrigues", (m * v.extend(R(0.0))).truncate(), rodrigues(a, $A(t), v));
    vassert_eq("= embed Matrix3", m, Matrix4::from(Matrix3::from_axis_angle(a, $A(t))));
    vcover("end");
}
fn $fb3(a: Vector3<R>, t: R, v: Vector3<R>) {
    unit3(a);
    let b: Basis3<R> = Rotation3::from_axis_angle(a, $A(t));
    vassert_eq("Rodrigues", b.rotate_vector(v), rodrigues(a, $A(t), v));
    vassert_eq("= Matrix3", Matrix3::from(b), Matrix3::from_axis_angle(a, $A(t)));
    vcover("end");
}
fn $fq(a: Vector3<R>, t: R, v: Vector3<R>) {
    unit3(a);
    let q: Quaternion<R> = Rotation3::from_axis_angle(a, $A(t));
    vassert_eq("|q| = 1", qnorm2(q), R(1.0));
    vassert_eq("Rodrigues", q * v, rodrigues(a, $A(t), v));
    vassert_eq("rotate_vector", q.rotate_vector(v), rodrigues(a, $A(t), v));
    vassert_eq("matrix of q = Matrix3::from_axis_angle", Matrix3::from(q), Matrix3::from_axis_angle(a, $A(t)));
    vcover("end");
}
// from_angle_x/y/z = from_axis_angle about the unit axes, in every representation
fn $faxes(t: R) {
    let (ux, uy, uz) = (Vector3::<R>::unit_x(), Vector3::<R>::unit_y(), Vector3::<R>::unit_z());
    vassert_eq("M3 x", Matrix3::from_angle_x($A(t)), Matrix3::from_axis_angle(ux, $A(t)));
    vassert_eq("M3 y", Matrix3::from_angle_y($A(t)), Matrix3::from_axis_angle(uy, $A(t)));
    vassert_eq("M3 z", Matrix3::from_angle_z($A(t)), Matrix3::from_axis_angle(uz, $A(t)));
    vassert_eq("M4 x", Matrix4::from_angle_x($A(t)), Matrix4::from_axis_angle(ux, $A(t)));
    vassert_eq("M4 y", Matrix4::from_angle_y($A(t)), Matrix4::from_axis_angle(uy, $A(t)));
    vassert_eq("M4 z", Matrix4::from_angle_z($A(t)), Matrix4::from_axis_angle(uz, $A(t)));
    let (bx, by, bz): (Basis3<R>, Basis3<R>, Basis3<R>) = (Rotation3::from_angle_x($A(t)), Rotation3::from_angle_y($A(t)), Rotation3::from_angle_z($A(t)));
    vassert_eq("B3 x", Matrix3::from(bx), Matrix3::from_axis_angle(ux, $A(t)));
    vassert_eq("B3 y", Matrix3::from(by), Matrix3::from_axis_angle(uy, $A(t)));
    vassert_eq("B3 z", Matrix3::from(bz), Matrix3::from_axis_angle(uz, $A(t)));
    let (qx, qy, qz): (Quaternion<R>, Quaternion<R>, Quaternion<R>) = (Rotation3::from_angle_x($A(t)), Rotation3::from_angle_y($A(t)), Rotation3::from_angle_z($A(t)));
    let (wx, wy, wz): (Quaternion<R>, Quaternion<R>, Quaternion<R>) = (Rotation3::from_axis_angle(ux, $A(t)), Rotation3::from_axis_angle(uy, $A(t)), Rotation3::from_axis_angle(uz, $A(t)));
    vassert_eq("Q x", qx, wx); vassert_eq("Q y", qy, wy); vassert_eq("Q z", qz, wz);
    // and explicitly: counter-clockwise about z maps e1 to (cos, sin, 0)
    vassert_eq("Rz e1", Matrix3::from_angle_z($A(t)) * ux, v3($A::cos($A(t)), $A::sin($A(t)), R(0.0)));
    vassert_eq("Rx e2", Matrix3::from_angle_x($A(t)) * uy, v3(R(0.0), $A::cos($A(t)), $A::sin($A(t))));
    vassert_eq("Ry e3", Matrix3::from_angle_y($A(t)) * uz, v3($A::sin($A(t)), R(0.0), $A::cos($A(t))));
    vcover("end");
}
fn $f2d(t: R) {
    let (s, c) = ($A::sin($A(t)), $A::cos($A(t)));
    let m = Matrix2::from_angle($A(t));
    vassert_eq("M2 e1 -> (cos, sin)", m * Vector2::unit_x(), Vector2::new(c, s));
    vassert_eq("M2 e2 -> (-sin, cos)", m * Vector2::unit_y(), Vector2::new(-s, c));
    let b: Basis2<R> = Rotation2::from_angle($A(t));
    vassert_eq("B2 e1", b.rotate_vector(Vector2::unit_x()), Vector2::new(c, s));
    vassert_eq("B2 e2", b.rotate_vector(Vector2::unit_y()), Vector2::new(-s, c));
    let mb: &Matrix2<R> = b.as_ref();
    vassert_eq("B2 = M2", *mb, m);
    vassert_eq("det = 1", det2(a2(m)), R(1.0));
    vcover("end");
}
}
}}
pub mod rad { use super::*; axis_angle!(reg, Rad; c06_rad_m3, c06_rad_m4, c06_rad_b3, c06_rad_q, c06_rad_axes, c06_rad_2d); }
pub mod deg { use super::*; axis_angle!(reg, Deg; c06_deg_m3, c06_deg_m4, c06_deg_b3, c06_deg_q, c06_deg_axes, c06_deg_2d); }

harnesses! { reg0;
// angles add under composition about a common axis
fn c06_compose_m3(a: Vector3<R>, t1: R, t2: R) {
    unit3(a);
    vassert_eq("R(a,t1) R(a,t2) = R(a,t1+t2)", Matrix3::from_axis_angle(a, Rad(t1)) * Matrix3::from_axis_angle(a, Rad(t2)), Matrix3::from_axis_angle(a, Rad(t1) + Rad(t2)));
    vcover("end");
}
fn c06_compose_q(a: Vector3<R>, t1: R, t2: R) {
    unit3(a);
    let (q1, q2, q12): (Quaternion<R>, Quaternion<R>, Quaternion<R>) = (Rotation3::from_axis_angle(a, Rad(t1)), Rotation3::from_axis_angle(a, Rad(t2)), Rotation3::from_axis_angle(a, Rad(t1) + Rad(t2)));
    vassert_eq("q(a,t1) q(a,t2) = q(a,t1+t2)", q1 * q2, q12);
    vcover("end");
}
fn c06_compose_2d(t1: R, t2: R) {
    vassert_eq("M2(t1) M2(t2) = M2(t1+t2)", Matrix2::from_angle(Rad(t1)) * Matrix2::from_angle(Rad(t2)), Matrix2::from_angle(Rad(t1) + Rad(t2)));
    let (b1, b2, b12): (Basis2<R>, Basis2<R>, Basis2<R>) = (Rotation2::from_angle(Rad(t1)), Rotation2::from_angle(Rad(t2)), Rotation2::from_angle(Rad(t1) + Rad(t2)));
    let (m, w): (Matrix2<R>, Matrix2<R>) = ((b1 * b2).into(), b12.into());
    vassert_eq("B2(t1) B2(t2) = B2(t1+t2)", m, w);
    vcover("end");
}
// r * invert(r) = one(), rotate_point(p) = rotate_vector(p - origin)
fn c06_invert_q(q: Quaternion<R>, p: Point3<R>) {
    vassume_eq(qnorm2(q), R(1.0));
    vassert_eq("q*inv(q)", q * Rotation::invert(&q), Quaternion::one());
    vassert_eq("inv(q)*q", Rotation::invert(&q) * q, Quaternion::one());
    vassert_eq("rotate_point", q.rotate_point(p).to_vec(), q.rotate_vector(p - Point3::origin()));
    vcover("end");
}
fn c06_invert_b3(a: Vector3<R>, t: R, p: Point3<R>) {
    unit3(a);
    let b: Basis3<R> = Rotation3::from_axis_angle(a, Rad(t));
    vlemma_eq("det = 1", det3(a3(Matrix3::from(b))), R(1.0));
    let i = Rotation::invert(&b);
    vassert_eq("b*inv(b)", Matrix3::from(b * i), Matrix3::from(Basis3::<R>::one()));
    vassert_eq("inv(b)*b", Matrix3::from(i * b), Matrix3::from(Basis3::<R>::one()));
    vassert_eq("inverse = transpose", Matrix3::from(i), Matrix3::from(b).transpose());
    vassert_eq("rotate_point", b.rotate_point(p).to_vec(), b.rotate_vector(p - Point3::origin()));
    vcover("end");
}
fn c06_invert_b2(t: R, p: Point2<R>) {
    let b: Basis2<R> = Rotation2::from_angle(Rad(t));
    let i = Rotation::invert(&b);
    let (m, w, o): (Matrix2<R>, Matrix2<R>, Matrix2<R>) = ((b * i).into(), (i * b).into(), Basis2::<R>::one().into());
    vassert_eq("b*inv(b)", m, o);
    vassert_eq("inv(b)*b", w, o);
    vassert_eq("rotate_point", b.rotate_point(p).to_vec(), b.rotate_vector(p - Point2::origin()));
    vcover("end");
}
}
#[cfg(feature = "native")]
pub fn reg() -> Vec<(&'static str, crate::HarnessFn)> { let mut v = reg0(); v.extend(rad::reg()); v.extend(deg::reg()); v }
