//! C20 harness bodies: serde round trips through the token format of `tok.rs`.
//!
//! Specification side (`GT`): `arb()` builds a value whose every scalar is `kani::any()` using
//! only public fields / struct literals (no float arithmetic anywhere), `expect()` writes the token
//! stream the property demands (struct name and arity, field names x, y, z, w / v, s /
//! scale, rot, disp / ... in declaration order, angles as a newtype around a bare number), and
//! `same()` compares two values component by component, floats by their bits.
//!
//! `Basis2` / `Basis3` keep their matrix private and every public constructor does float
//! arithmetic, so `arb()` obtains a basis with an arbitrary matrix by *deserializing* the expected
//! stream (then checks through the public `AsRef<MatrixN>` that the matrix arrived unchanged); the
//! round trip proper is then serialize -> compare with the expected stream -> deserialize.
use crate::common::*;
use crate::tok::*;
use cgmath::*;
use serde::{Deserialize, Serialize};

pub trait GT: Sized + Serialize + for<'de> Deserialize<'de> {
    fn arb() -> Self;
    fn expect(&self, b: &mut Buf);
    fn same(&self, o: &Self) -> bool;
}

macro_rules! gt_scalar { ($t:ty, $tok:ident, $conv:expr) => {
    impl GT for $t {
        fn arb() -> Self { kani::any() }
        fn expect(&self, b: &mut Buf) { b.put(Tok::$tok($conv(*self))); }
        fn same(&self, o: &Self) -> bool { eq(*self, *o) }
    }
} }
gt_scalar!(f32, F32, f32::to_bits);
gt_scalar!(f64, F64, f64::to_bits);
gt_scalar!(i32, I32, core::convert::identity);

/// plain structs with public named fields, listed in declaration order
macro_rules! gt_struct {
    ($T:ident < $P:ident >, $name:expr, $n:expr, { $($f:ident),+ }) => { gt_struct!($T<$P: Sized>, $name, $n, { $($f),+ }); };
    // (a bound on the parameter: the projection descriptions are only ever used with float scalars, and a serde impl
    // that goes through a helper may legitimately require BaseFloat)
    ($T:ident < $P:ident : $B:path >, $name:expr, $n:expr, { $($f:ident),+ }) => {
        impl<$P: GT + $B> GT for $T<$P> {
            fn arb() -> Self { $T { $($f: GT::arb()),+ } }
            fn expect(&self, b: &mut Buf) {
                b.put(Tok::Struct($name, $n));
                $( b.put(Tok::Field(stringify!($f))); self.$f.expect(b); )+
                b.put(Tok::End);
            }
            fn same(&self, o: &Self) -> bool { true $(&& self.$f.same(&o.$f))+ }
        }
    };
}
gt_struct!(Vector1<E>, "Vector1", 1, { x });
gt_struct!(Vector2<E>, "Vector2", 2, { x, y });
gt_struct!(Vector3<E>, "Vector3", 3, { x, y, z });
gt_struct!(Vector4<E>, "Vector4", 4, { x, y, z, w });
gt_struct!(Point1<E>, "Point1", 1, { x });
gt_struct!(Point2<E>, "Point2", 2, { x, y });
gt_struct!(Point3<E>, "Point3", 3, { x, y, z });
gt_struct!(Euler<A>, "Euler", 3, { x, y, z });
gt_struct!(Perspective<E: cgmath::BaseFloat>, "Perspective", 6, { left, right, bottom, top, near, far });
gt_struct!(Ortho<E: cgmath::BaseFloat>, "Ortho", 6, { left, right, bottom, top, near, far });
gt_struct!(PerspectiveFov<E: cgmath::BaseFloat>, "PerspectiveFov", 4, { fovy, aspect, near, far });
gt_struct!(PlanarFov<E: cgmath::BaseFloat>, "PlanarFov", 5, { fovy, aspect, height, near, far });
// matrices: the fields are the columns
gt_struct!(Matrix2<E>, "Matrix2", 2, { x, y });
gt_struct!(Matrix3<E>, "Matrix3", 3, { x, y, z });
gt_struct!(Matrix4<E>, "Matrix4", 4, { x, y, z, w });
// quaternion: vector part first, then the scalar part
gt_struct!(Quaternion<E>, "Quaternion", 2, { v, s });

/// angles: a newtype around a bare number
macro_rules! gt_angle { ($T:ident, $name:expr) => {
    impl<E: GT> GT for $T<E> {
        fn arb() -> Self { $T(GT::arb()) }
        fn expect(&self, b: &mut Buf) { b.put(Tok::Newtype($name)); self.0.expect(b); }
        fn same(&self, o: &Self) -> bool { self.0.same(&o.0) }
    }
} }
gt_angle!(Rad, "Rad");
gt_angle!(Deg, "Deg");

/// bases: one private field `mat`
macro_rules! gt_basis { ($T:ident, $M:ident, $name:expr) => {
    impl<E: GT + BaseFloat> GT for $T<E> where $M<E>: GT {
        fn arb() -> Self {
            let m: $M<E> = GT::arb();
            let mut b = Buf::new();
            b.put(Tok::Struct($name, 1)); b.put(Tok::Field("mat")); m.expect(&mut b); b.put(Tok::End);
            let mut de = De { b: &b, p: 0 };
            match <$T<E> as Deserialize>::deserialize(&mut de) {
                Ok(v) => {
                    let got: &$M<E> = v.as_ref();
                    assert!(got.same(&m), "a deserialized basis holds exactly the serialized matrix");
                    assert!(de.p == b.n, "basis: all tokens consumed");
                    v
                }
                Err(_) => { assert!(false, "a well-formed basis stream is rejected"); loop {} }
            }
        }
        fn expect(&self, b: &mut Buf) {
            let m: &$M<E> = self.as_ref();
            b.put(Tok::Struct($name, 1)); b.put(Tok::Field("mat")); m.expect(b); b.put(Tok::End);
        }
        fn same(&self, o: &Self) -> bool {
            let (a, c): (&$M<E>, &$M<E>) = (self.as_ref(), o.as_ref());
            a.same(c)
        }
    }
} }
gt_basis!(Basis2, Matrix2, "Basis2");
gt_basis!(Basis3, Matrix3, "Basis3");

impl<V, R> GT for Decomposed<V, R>
where
    V: GT + VectorSpace,
    V::Scalar: GT + cgmath::BaseFloat,
    R: GT,
{
    fn arb() -> Self { Decomposed { scale: GT::arb(), rot: GT::arb(), disp: GT::arb() } }
    fn expect(&self, b: &mut Buf) {
        b.put(Tok::Struct("Decomposed", 3));
        b.put(Tok::Field("scale")); self.scale.expect(b);
        b.put(Tok::Field("rot")); self.rot.expect(b);
        b.put(Tok::Field("disp")); self.disp.expect(b);
        b.put(Tok::End);
    }
    fn same(&self, o: &Self) -> bool { self.scale.same(&o.scale) && self.rot.same(&o.rot) && self.disp.same(&o.disp) }
}

fn ser<T: Serialize>(x: &T) -> Buf {
    let mut b = Buf::new();
    assert!(x.serialize(&mut Ser(&mut b)).is_ok(), "serialize succeeds");
    b
}

fn de_all<T: for<'de> Deserialize<'de>>(b: &Buf) -> Option<T> {
    let mut de = De { b, p: 0 };
    match T::deserialize(&mut de) {
        Ok(v) => { assert!(de.p == b.n, "deserialize consumes the whole stream"); Some(v) }
        Err(_) => None,
    }
}

/// serialize, compare the token stream with the specified one, deserialize, compare bit for bit
pub fn roundtrip<T: GT>() {
    let x = T::arb();
    let b = ser(&x);
    let mut e = Buf::new();
    x.expect(&mut e);
    assert!(b.n == e.n, "number of tokens");
    let mut k = 0;
    while k < e.n {
        assert!(b.t[k] == e.t[k], "token stream: names, order and payload bits as specified");
        k += 1;
    }
    match de_all::<T>(&b) {
        Some(y) => assert!(x.same(&y), "deserialize(serialize(x)) is bit-identical to x"),
        None => assert!(false, "deserialize(serialize(x)) is rejected"),
    }
    kani::cover!(e.n > 1, "reach_roundtrip");
}

/// the three field groups of a Decomposed, as produced by the real serializer
fn dec_groups<V, R>(d: &Decomposed<V, R>) -> [Buf; 3]
where V: GT + VectorSpace, V::Scalar: GT + cgmath::BaseFloat, R: GT {
    let mut g0 = Buf::new(); g0.put(Tok::Field("scale")); g0.append(&ser(&d.scale));
    let mut g1 = Buf::new(); g1.put(Tok::Field("rot")); g1.append(&ser(&d.rot));
    let mut g2 = Buf::new(); g2.put(Tok::Field("disp")); g2.append(&ser(&d.disp));
    [g0, g1, g2]
}

fn dec_assemble(groups: &[Buf; 3], order: &[usize], unknown_at: Option<usize>, filler: Tok) -> Buf {
    let mut b = Buf::new();
    b.put(Tok::Struct("Decomposed", 3));
    let mut k = 0;
    while k <= order.len() {
        if unknown_at == Some(k) { b.put(Tok::Field("bogus")); b.put(filler); }
        if k < order.len() { b.append(&groups[order[k]]); }
        k += 1;
    }
    b.put(Tok::End);
    b
}

const PERMS: [[usize; 3]; 6] = [[0, 1, 2], [0, 2, 1], [1, 0, 2], [1, 2, 0], [2, 0, 1], [2, 1, 0]];

/// field orders PERMS[LO..HI] are accepted and give the same value (the generated harnesses cover 0..6)
pub fn dec_perms<V, R, const LO: usize, const HI: usize>()
where V: GT + VectorSpace, V::Scalar: GT + cgmath::BaseFloat, R: GT {
    let d: Decomposed<V, R> = GT::arb();
    let g = dec_groups(&d);
    let filler = g[0].t[1];
    let mut p = LO;
    while p < HI {
        let b = dec_assemble(&g, &PERMS[p], None, filler);
        match de_all::<Decomposed<V, R>>(&b) {
            Some(y) => assert!(d.same(&y), "Decomposed: a permuted field order yields the same value"),
            None => assert!(false, "Decomposed: a permuted field order is rejected"),
        }
        p += 1;
    }
    kani::cover!(p == HI && HI > LO && HI <= 6, "reach_all_perms");
}

/// each single omission is rejected (STEP = 1: with the two remaining fields in either order; STEP = 2: one order)
pub fn dec_omissions<V, R, const STEP: usize>()
where V: GT + VectorSpace, V::Scalar: GT + cgmath::BaseFloat, R: GT {
    let d: Decomposed<V, R> = GT::arb();
    let g = dec_groups(&d);
    let filler = g[0].t[1];
    const OMIT: [[usize; 2]; 6] = [[1, 2], [2, 1], [0, 2], [2, 0], [0, 1], [1, 0]];
    let mut p = 0;
    while p < 6 {
        let b = dec_assemble(&g, &OMIT[p], None, filler);
        assert!(de_all::<Decomposed<V, R>>(&b).is_none(), "Decomposed: a missing field must be an error, not a default");
        p += STEP;
    }
    // sanity of the construction itself: the complete stream is accepted
    let b = dec_assemble(&g, &PERMS[0], None, filler);
    assert!(de_all::<Decomposed<V, R>>(&b).is_some(), "Decomposed: complete stream accepted");
    kani::cover!(p == 6 && (STEP == 1 || STEP == 2), "reach_all_omissions");
}

/// an unknown field (before, between or after the three known ones) is rejected
pub fn dec_unknown<V, R>()
where V: GT + VectorSpace, V::Scalar: GT + cgmath::BaseFloat, R: GT {
    let d: Decomposed<V, R> = GT::arb();
    let g = dec_groups(&d);
    let filler = g[0].t[1];
    let mut at = 0;
    while at < 4 {
        let b = dec_assemble(&g, &PERMS[0], Some(at), filler);
        assert!(de_all::<Decomposed<V, R>>(&b).is_none(), "Decomposed: an unknown field must be an error");
        at += 1;
    }
    // sanity of the construction itself: without the unknown field the same stream is accepted
    let b = dec_assemble(&g, &PERMS[0], None, filler);
    assert!(de_all::<Decomposed<V, R>>(&b).is_some(), "Decomposed: complete stream accepted");
    kani::cover!(at == 4, "reach_all_unknown");
}
