//! Shared pieces: bit-exact equality, the non-numeric element type and the *ground truth* traits.
//!
//! Ground truth = the public, named fields of the cgmath structs (`x, y, z, w`; `v, s`).  `mk`
//! builds a value with a struct literal naming each field, `rd` reads the fields by name.  Every
//! view / conversion under test is compared against these; nothing in this file goes through a
//! conversion, index operator or constructor of cgmath.
use cgmath::*;

/// Bit-exact comparison key: floats by `to_bits`, everything else by `==` on itself.
pub trait Bits: Copy {
    type B: PartialEq + Copy;
    fn bits(self) -> Self::B;
}
macro_rules! bits_id { ($($t:ty),*) => { $( impl Bits for $t { type B = $t; #[inline] fn bits(self) -> $t { self } } )* } }
bits_id!(u8, u16, u32, u64, usize, i8, i16, i32, i64, isize, bool);
impl Bits for f32 { type B = u32; #[inline] fn bits(self) -> u32 { self.to_bits() } }
impl Bits for f64 { type B = u64; #[inline] fn bits(self) -> u64 { self.to_bits() } }
impl<A: Bits, B: Bits> Bits for (A, B) { type B = (A::B, B::B); #[inline] fn bits(self) -> Self::B { (self.0.bits(), self.1.bits()) } }

#[inline]
pub fn eq<T: Bits>(a: T, b: T) -> bool { a.bits() == b.bits() }

/// A non-numeric `Copy` element type (3 payload bytes + 1 padding byte, alignment 2).
#[derive(Copy, Clone, PartialEq, Eq, Debug)]
pub struct Tag { pub id: u16, pub k: u8 }
impl Bits for Tag { type B = (u16, u8); #[inline] fn bits(self) -> (u16, u8) { (self.id, self.k) } }
#[cfg(kani)]
impl kani::Arbitrary for Tag { fn any() -> Self { Tag { id: kani::any(), k: kani::any() } } }

/// Wrapper used as the result type of `map` closures (so that the mapped type differs from the source).
#[derive(Copy, Clone, PartialEq, Eq, Debug)]
pub struct Wrapped<E>(pub E);
impl<E: Bits> Bits for Wrapped<E> { type B = E::B; #[inline] fn bits(self) -> E::B { self.0.bits() } }

/// Ground truth for the "linear" types: VectorN, PointN, Quaternion.
pub trait Lin<E: Copy, const N: usize>: Copy {
    /// the homogeneous tuple type of the same arity
    type Tup: Copy;
    /// struct literal naming each field: position i of `a` goes to the i-th of x, y, z, w (Quaternion: v.x, v.y, v.z, s)
    fn mk(a: [E; N]) -> Self;
    /// read the named fields in the order x, y, z, w (Quaternion: v.x, v.y, v.z, s)
    fn rd(&self) -> [E; N];
    /// assign the i-th named field
    fn set(&mut self, i: usize, e: E);
    fn tmk(a: [E; N]) -> Self::Tup;
    fn trd(t: &Self::Tup) -> [E; N];
    fn tset(t: &mut Self::Tup, i: usize, e: E);
}

macro_rules! lin_impl {
    ($T:ident, $n:expr, { $($f:ident : $i:tt),+ }, $tup:ty) => {
        impl<E: Copy> Lin<E, $n> for $T<E> {
            type Tup = $tup;
            #[inline] fn mk(a: [E; $n]) -> Self { $T { $($f: a[$i]),+ } }
            #[inline] fn rd(&self) -> [E; $n] { [$(self.$f),+] }
            #[inline] fn set(&mut self, i: usize, e: E) { match i { $($i => self.$f = e,)+ _ => unreachable!() } }
            #[inline] fn tmk(a: [E; $n]) -> $tup { ($(a[$i],)+) }
            #[inline] fn trd(t: &$tup) -> [E; $n] { [$(t.$i),+] }
            #[inline] fn tset(t: &mut $tup, i: usize, e: E) { match i { $($i => t.$i = e,)+ _ => unreachable!() } }
        }
    };
}
lin_impl!(Vector1, 1, { x: 0 }, (E,));
lin_impl!(Vector2, 2, { x: 0, y: 1 }, (E, E));
lin_impl!(Vector3, 3, { x: 0, y: 1, z: 2 }, (E, E, E));
lin_impl!(Vector4, 4, { x: 0, y: 1, z: 2, w: 3 }, (E, E, E, E));
lin_impl!(Point1, 1, { x: 0 }, (E,));
lin_impl!(Point2, 2, { x: 0, y: 1 }, (E, E));
lin_impl!(Point3, 3, { x: 0, y: 1, z: 2 }, (E, E, E));

impl<E: Copy> Lin<E, 4> for Quaternion<E> {
    type Tup = (E, E, E, E);
    #[inline] fn mk(a: [E; 4]) -> Self { Quaternion { v: Vector3 { x: a[0], y: a[1], z: a[2] }, s: a[3] } }
    #[inline] fn rd(&self) -> [E; 4] { [self.v.x, self.v.y, self.v.z, self.s] }
    #[inline] fn set(&mut self, i: usize, e: E) { match i { 0 => self.v.x = e, 1 => self.v.y = e, 2 => self.v.z = e, 3 => self.s = e, _ => unreachable!() } }
    #[inline] fn tmk(a: [E; 4]) -> Self::Tup { (a[0], a[1], a[2], a[3]) }
    #[inline] fn trd(t: &Self::Tup) -> [E; 4] { [t.0, t.1, t.2, t.3] }
    #[inline] fn tset(t: &mut Self::Tup, i: usize, e: E) { match i { 0 => t.0 = e, 1 => t.1 = e, 2 => t.2 = e, 3 => t.3 = e, _ => unreachable!() } }
}

/// Ground truth for matrices: `c[col][row]`; columns are the fields x, y, z, w, each a VectorN.
pub trait Mat<E: Copy, const N: usize>: Copy {
    type Col: Lin<E, N>;
    fn mk(c: [[E; N]; N]) -> Self;
    fn rd(&self) -> [[E; N]; N];
    /// assign component (col, row) by field names
    fn set(&mut self, col: usize, row: usize, e: E);
}
macro_rules! mat_impl {
    ($M:ident, $V:ident, $n:expr, { $($f:ident : $i:tt),+ }) => {
        impl<E: Copy> Mat<E, $n> for $M<E> {
            type Col = $V<E>;
            #[inline] fn mk(c: [[E; $n]; $n]) -> Self { $M { $($f: <$V<E> as Lin<E, $n>>::mk(c[$i])),+ } }
            #[inline] fn rd(&self) -> [[E; $n]; $n] { [$(<$V<E> as Lin<E, $n>>::rd(&self.$f)),+] }
            #[inline] fn set(&mut self, col: usize, row: usize, e: E) { match col { $($i => <$V<E> as Lin<E, $n>>::set(&mut self.$f, row, e),)+ _ => unreachable!() } }
        }
    };
}
mat_impl!(Matrix2, Vector2, 2, { x: 0, y: 1 });
mat_impl!(Matrix3, Vector3, 3, { x: 0, y: 1, z: 2 });
mat_impl!(Matrix4, Vector4, 4, { x: 0, y: 1, z: 2, w: 3 });
