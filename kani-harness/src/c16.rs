//! C16 harness bodies: layout, views, indexing, conversions.
//!
//! Every body draws its inputs from `kani::any()` (so Kani's concrete playback can replay it
//! natively), builds the value under test with the ground-truth `mk` (struct literal naming the
//! fields) and compares what a view / conversion exposes with the ground truth, bit for bit.
//! "For every position" is expressed with one symbolic position `j` (`idx::<N>()`), which the
//! solver instantiates with every value below N.
//!
//! Reachability: the generated `#[kani::proof]` wrappers end with `kani::cover!(true, "end_reached")`
//! and the driver requires that cover to be SATISFIED; range-specific covers below are also
//! required to be SATISFIED (they show that the non-empty-range branches were explored).
use crate::common::*;
use cgmath::prelude::*;
use cgmath::*;
use core::ops::{Index, IndexMut, Range, RangeFrom, RangeFull, RangeTo};

/// a symbolic position below N
#[inline]
pub fn idx<const N: usize>() -> usize {
    let j: usize = kani::any();
    kani::assume(j < N);
    j
}

/// `$a` and `$b` (indexable, length `$n`) agree bit for bit at every position
macro_rules! same {
    ($a:expr, $b:expr, $n:expr, $msg:expr) => {{
        let j_ = idx::<$n>();
        assert!(eq(($a)[j_], ($b)[j_]), $msg);
    }};
}

// ------------------------------------------------------------------------------------------
// public constructors (argument order is part of the property: Quaternion::new takes s first)
// ------------------------------------------------------------------------------------------
pub trait Ctor<E: Copy, const N: usize>: Lin<E, N> {
    fn via_new(a: [E; N]) -> Self;
    fn via_short(a: [E; N]) -> Self;
}
macro_rules! ctor_impl {
    ($T:ident, $short:ident, $n:expr, { $($i:tt),+ }) => {
        impl<E: Copy> Ctor<E, $n> for $T<E> {
            fn via_new(a: [E; $n]) -> Self { $T::new($(a[$i]),+) }
            fn via_short(a: [E; $n]) -> Self { $short($(a[$i]),+) }
        }
    };
}
ctor_impl!(Vector1, vec1, 1, { 0 });
ctor_impl!(Vector2, vec2, 2, { 0, 1 });
ctor_impl!(Vector3, vec3, 3, { 0, 1, 2 });
ctor_impl!(Vector4, vec4, 4, { 0, 1, 2, 3 });
ctor_impl!(Point1, point1, 1, { 0 });
ctor_impl!(Point2, point2, 2, { 0, 1 });
ctor_impl!(Point3, point3, 3, { 0, 1, 2 });
impl<E: Copy> Ctor<E, 4> for Quaternion<E> {
    // Quaternion::new(w, xi, yj, zk): scalar part FIRST; components in memory / array order are x, y, z, s
    fn via_new(a: [E; 4]) -> Self { Quaternion::new(a[3], a[0], a[1], a[2]) }
    fn via_short(a: [E; 4]) -> Self { Quaternion::from_sv(a[3], Vector3 { x: a[0], y: a[1], z: a[2] }) }
}

pub fn lin_ctor<T, E, const N: usize>()
where
    E: Bits + kani::Arbitrary,
    T: Ctor<E, N>,
{
    let c: [E; N] = kani::any();
    same!(T::via_new(c).rd(), c, N, "new(..) stores its arguments in field order");
    same!(T::via_short(c).rd(), c, N, "short constructor stores its arguments in field order");
}

// ------------------------------------------------------------------------------------------
// read views of VectorN / PointN / Quaternion
// ------------------------------------------------------------------------------------------
pub fn lin_views<T, E, const N: usize>()
where
    E: Bits + kani::Arbitrary,
    T: Lin<E, N>
        + From<[E; N]> + Into<[E; N]> + From<<T as Lin<E, N>>::Tup> + Into<<T as Lin<E, N>>::Tup>
        + AsRef<[E; N]> + AsRef<<T as Lin<E, N>>::Tup>
        + Index<usize, Output = E> + Index<Range<usize>, Output = [E]> + Index<RangeTo<usize>, Output = [E]>
        + Index<RangeFrom<usize>, Output = [E]> + Index<RangeFull, Output = [E]>,
    for<'a> &'a T: From<&'a [E; N]> + From<&'a <T as Lin<E, N>>::Tup>,
{
    let c: [E; N] = kani::any();
    let v = T::mk(c);

    // by value: arrays and tuples
    let a: [E; N] = v.into();
    same!(a, c, N, "Into<[S; n]> exposes fields in order");
    same!(T::from(c).rd(), c, N, "From<[S; n]> fills fields in order");
    let t: T::Tup = v.into();
    same!(T::trd(&t), c, N, "Into<tuple> exposes fields in order");
    same!(T::from(T::tmk(c)).rd(), c, N, "From<tuple> fills fields in order");

    // AsRef
    let r: &[E; N] = v.as_ref();
    same!(r, c, N, "AsRef<[S; n]> exposes fields in order");
    let rt: &T::Tup = v.as_ref();
    same!(T::trd(rt), c, N, "AsRef<tuple> exposes fields in order");

    // references obtained from references to arrays / tuples
    let arr = c;
    let rv: &T = (&arr).into();
    same!(rv.rd(), c, N, "<&T>::from(&[S; n]) exposes array elements as fields in order");
    let tup = T::tmk(c);
    let rv: &T = (&tup).into();
    same!(rv.rd(), c, N, "<&T>::from(&tuple) exposes tuple elements as fields in order");

    // Index<usize>
    let j = idx::<N>();
    assert!(eq(v[j], c[j]), "Index<usize> returns the j-th field");

    // the four range kinds
    let lo: usize = kani::any();
    let hi: usize = kani::any();
    kani::assume(lo <= hi && hi <= N);
    let s = &v[lo..hi];
    assert!(s.len() == hi - lo, "Index<Range> length");
    if hi > lo {
        let k: usize = kani::any();
        kani::assume(k < hi - lo);
        assert!(eq(s[k], c[lo + k]), "Index<Range> element");
        kani::cover!(true, "reach_nonempty_range");
    }
    let s = &v[..hi];
    assert!(s.len() == hi, "Index<RangeTo> length");
    if hi > 0 {
        let k: usize = kani::any();
        kani::assume(k < hi);
        assert!(eq(s[k], c[k]), "Index<RangeTo> element");
        kani::cover!(true, "reach_nonempty_rangeto");
    }
    let s = &v[lo..];
    assert!(s.len() == N - lo, "Index<RangeFrom> length");
    if lo < N {
        let k: usize = kani::any();
        kani::assume(k < N - lo);
        assert!(eq(s[k], c[lo + k]), "Index<RangeFrom> element");
        kani::cover!(true, "reach_nonempty_rangefrom");
    }
    let s = &v[..];
    assert!(s.len() == N, "Index<RangeFull> length");
    assert!(eq(s[j], c[j]), "Index<RangeFull> element");
}

/// everything a read view can show of `v` equals `exp`
fn lin_check_reads<T, E, const N: usize>(v: &T, exp: &[E; N])
where
    E: Bits + kani::Arbitrary,
    T: Lin<E, N> + Into<[E; N]> + Into<<T as Lin<E, N>>::Tup> + AsRef<[E; N]> + AsRef<<T as Lin<E, N>>::Tup>
        + Index<usize, Output = E> + Index<RangeFull, Output = [E]>,
{
    let j = idx::<N>();
    assert!(eq(v.rd()[j], exp[j]), "after write: named field");
    let a: &[E; N] = v.as_ref();
    assert!(eq(a[j], exp[j]), "after write: AsRef<[S; n]>");
    let t: &T::Tup = v.as_ref();
    assert!(eq(T::trd(t)[j], exp[j]), "after write: AsRef<tuple>");
    assert!(eq(v[j], exp[j]), "after write: Index<usize>");
    assert!(eq((&v[..])[j], exp[j]), "after write: Index<RangeFull>");
    let arr: [E; N] = (*v).into();
    assert!(eq(arr[j], exp[j]), "after write: Into<[S; n]>");
    let tp: T::Tup = (*v).into();
    assert!(eq(T::trd(&tp)[j], exp[j]), "after write: Into<tuple>");
}

// ------------------------------------------------------------------------------------------
// mutable views: a write of a symbolic value at a symbolic position through each of them
// ------------------------------------------------------------------------------------------
pub fn lin_writes<T, E, const N: usize>()
where
    E: Bits + kani::Arbitrary,
    T: Lin<E, N> + Into<[E; N]> + Into<<T as Lin<E, N>>::Tup>
        + AsRef<[E; N]> + AsRef<<T as Lin<E, N>>::Tup> + AsMut<[E; N]> + AsMut<<T as Lin<E, N>>::Tup>
        + Index<usize, Output = E> + IndexMut<usize>
        + Index<Range<usize>, Output = [E]> + IndexMut<Range<usize>>
        + Index<RangeTo<usize>, Output = [E]> + IndexMut<RangeTo<usize>>
        + Index<RangeFrom<usize>, Output = [E]> + IndexMut<RangeFrom<usize>>
        + Index<RangeFull, Output = [E]> + IndexMut<RangeFull>,
    for<'a> &'a mut T: From<&'a mut [E; N]> + From<&'a mut <T as Lin<E, N>>::Tup>,
{
    let c: [E; N] = kani::any();
    let i = idx::<N>();
    let nv: E = kani::any();
    let mut exp = c;
    exp[i] = nv;
    let lo: usize = kani::any();
    let hi: usize = kani::any();
    kani::assume(lo <= i && i < hi && hi <= N);

    // named field
    { let mut v = T::mk(c); v.set(i, nv); lin_check_reads(&v, &exp); }
    // IndexMut<usize>
    { let mut v = T::mk(c); v[i] = nv; lin_check_reads(&v, &exp); }
    // AsMut<[S; n]>
    { let mut v = T::mk(c); { let a: &mut [E; N] = v.as_mut(); a[i] = nv; } lin_check_reads(&v, &exp); }
    // AsMut<tuple>
    { let mut v = T::mk(c); { let t: &mut T::Tup = v.as_mut(); T::tset(t, i, nv); } lin_check_reads(&v, &exp); }
    // IndexMut by the four range kinds
    { let mut v = T::mk(c); { let s: &mut [E] = &mut v[..]; s[i] = nv; } lin_check_reads(&v, &exp); }
    { let mut v = T::mk(c); { let s: &mut [E] = &mut v[lo..hi]; assert!(s.len() == hi - lo); s[i - lo] = nv; } lin_check_reads(&v, &exp); }
    { let mut v = T::mk(c); { let s: &mut [E] = &mut v[..hi]; assert!(s.len() == hi); s[i] = nv; } lin_check_reads(&v, &exp); }
    { let mut v = T::mk(c); { let s: &mut [E] = &mut v[lo..]; assert!(s.len() == N - lo); s[i - lo] = nv; } lin_check_reads(&v, &exp); }
    // &mut T obtained from &mut [S; n]: the array is the storage
    { let mut a = c; { let r: &mut T = (&mut a).into(); r.set(i, nv); } same!(a, exp, N, "write through <&mut T>::from(&mut [S; n]) by field lands in the array"); }
    { let mut a = c; { let r: &mut T = (&mut a).into(); r[i] = nv; } same!(a, exp, N, "write through <&mut T>::from(&mut [S; n]) by index lands in the array"); }
    // &mut T obtained from &mut tuple
    { let mut t = T::tmk(c); { let r: &mut T = (&mut t).into(); r.set(i, nv); } same!(T::trd(&t), exp, N, "write through <&mut T>::from(&mut tuple) lands in the tuple"); }
}

// ------------------------------------------------------------------------------------------
// Array trait: len, from_value, as_ptr, as_mut_ptr, swap_elements
// ------------------------------------------------------------------------------------------
pub fn lin_array<T, E, const N: usize>()
where
    E: Bits + kani::Arbitrary,
    T: Lin<E, N> + Array<Element = E>,
{
    assert!(T::len() == N, "Array::len");
    let e: E = kani::any();
    same!(T::from_value(e).rd(), [e; N], N, "Array::from_value replicates");
    let c: [E; N] = kani::any();
    let v = T::mk(c);
    let j = idx::<N>();
    let p = v.as_ptr();
    assert!(eq(unsafe { *p.add(j) }, c[j]), "as_ptr().add(j) reads the j-th field");
}

pub fn lin_array_writes<T, E, const N: usize>()
where
    E: Bits + kani::Arbitrary,
    T: Lin<E, N> + Array<Element = E>,
{
    let c: [E; N] = kani::any();
    let i = idx::<N>();
    let nv: E = kani::any();
    let mut exp = c;
    exp[i] = nv;
    let mut w = T::mk(c);
    unsafe { *w.as_mut_ptr().add(i) = nv; }
    same!(w.rd(), exp, N, "write through as_mut_ptr().add(i) lands in the i-th field only");
    assert!(eq(w[i], nv), "write through as_mut_ptr().add(i) is read back by Index");

    let p = idx::<N>();
    let q = idx::<N>();
    let mut s = T::mk(c);
    s.swap_elements(p, q);
    let mut ex = c;
    ex[p] = c[q];
    ex[q] = c[p];
    same!(s.rd(), ex, N, "swap_elements exchanges exactly positions p and q");
}

// ------------------------------------------------------------------------------------------
// mint round trips and conv::array*
// ------------------------------------------------------------------------------------------
pub trait MintLin<E: Copy, const N: usize>: Lin<E, N> {
    type M: From<Self> + Into<Self>;
    fn mmk(a: [E; N]) -> Self::M;
    fn mrd(m: &Self::M) -> [E; N];
}
macro_rules! mint_lin_impl {
    ($T:ident, $M:ident, $n:expr, { $($f:ident : $i:tt),+ }) => {
        impl<E: Copy> MintLin<E, $n> for $T<E> {
            type M = mint::$M<E>;
            fn mmk(a: [E; $n]) -> Self::M { mint::$M { $($f: a[$i]),+ } }
            fn mrd(m: &Self::M) -> [E; $n] { [$(m.$f),+] }
        }
    };
}
mint_lin_impl!(Vector2, Vector2, 2, { x: 0, y: 1 });
mint_lin_impl!(Vector3, Vector3, 3, { x: 0, y: 1, z: 2 });
mint_lin_impl!(Vector4, Vector4, 4, { x: 0, y: 1, z: 2, w: 3 });
mint_lin_impl!(Point2, Point2, 2, { x: 0, y: 1 });
mint_lin_impl!(Point3, Point3, 3, { x: 0, y: 1, z: 2 });
impl<E: Copy> MintLin<E, 4> for Quaternion<E> {
    type M = mint::Quaternion<E>;
    fn mmk(a: [E; 4]) -> Self::M { mint::Quaternion { v: mint::Vector3 { x: a[0], y: a[1], z: a[2] }, s: a[3] } }
    fn mrd(m: &Self::M) -> [E; 4] { [m.v.x, m.v.y, m.v.z, m.s] }
}

pub fn lin_mint<T, E, const N: usize>()
where
    E: Bits + kani::Arbitrary,
    T: MintLin<E, N>,
{
    let c: [E; N] = kani::any();
    let m: T::M = T::mk(c).into();
    same!(T::mrd(&m), c, N, "Into<mint> keeps every component under the same name");
    let back: T = T::mmk(c).into();
    same!(back.rd(), c, N, "From<mint> keeps every component under the same name");
    let rt: T = { let m2: T::M = T::mk(c).into(); m2.into() };
    same!(rt.rd(), c, N, "mint round trip");
}

pub trait ConvLin<E: Copy, const N: usize>: Lin<E, N> {
    fn conv(self) -> [E; N];
}
macro_rules! conv_lin_impl { ($T:ident, $f:ident, $n:expr) => { impl<E: Copy> ConvLin<E, $n> for $T<E> { fn conv(self) -> [E; $n] { cgmath::conv::$f(self) } } } }
conv_lin_impl!(Vector2, array2, 2);
conv_lin_impl!(Vector3, array3, 3);
conv_lin_impl!(Vector4, array4, 4);
conv_lin_impl!(Point2, array2, 2);
conv_lin_impl!(Point3, array3, 3);
impl<E: BaseNum> ConvLin<E, 4> for Quaternion<E> { fn conv(self) -> [E; 4] { cgmath::conv::array4(self) } }

pub fn lin_conv<T, E, const N: usize>()
where
    E: Bits + kani::Arbitrary,
    T: ConvLin<E, N>,
{
    let c: [E; N] = kani::any();
    same!(T::mk(c).conv(), c, N, "conv::arrayN exposes fields in order");
}

// ------------------------------------------------------------------------------------------
// out-of-range indices: every one of them must panic
// ------------------------------------------------------------------------------------------
// Pattern: a symbolic selector picks one indexing form; `oob_pre` (must be SATISFIED) shows the form
// is reached with an out-of-range index, `oob_post` (must be UNSATISFIABLE / UNREACHABLE) shows that
// no execution returns from it, and the driver requires that every FAILED check of the harness is a
// bounds / slice-range check.  Together: each such index panics, and only with a bounds panic.
macro_rules! oob_arm {
    ($body:block) => {{
        kani::cover!(true, "oob_pre");
        $body
        kani::cover!(true, "oob_post");
    }};
}

pub fn lin_oob<T, E, const N: usize>()
where
    E: Bits + kani::Arbitrary,
    T: Lin<E, N>
        + Index<usize, Output = E> + IndexMut<usize>
        + Index<Range<usize>, Output = [E]> + IndexMut<Range<usize>>
        + Index<RangeTo<usize>, Output = [E]> + IndexMut<RangeTo<usize>>
        + Index<RangeFrom<usize>, Output = [E]> + IndexMut<RangeFrom<usize>>,
{
    let c: [E; N] = kani::any();
    let nv: E = kani::any();
    let mut v = T::mk(c);
    let a: usize = kani::any();
    let b: usize = kani::any();
    let k: u8 = kani::any();
    match k {
        0 => { kani::assume(a >= N); oob_arm!({ let x = v[a]; }) }
        1 => { kani::assume(a >= N); oob_arm!({ v[a] = nv; }) }
        2 => { kani::assume(a <= b && b > N); oob_arm!({ let s = &v[a..b]; }) }
        3 => { kani::assume(a > b && b <= N); oob_arm!({ let s = &v[a..b]; }) }
        4 => { kani::assume(b > N); oob_arm!({ let s = &v[..b]; }) }
        5 => { kani::assume(a > N); oob_arm!({ let s = &v[a..]; }) }
        6 => { kani::assume(a <= b && b > N); oob_arm!({ let s = &mut v[a..b]; }) }
        7 => { kani::assume(a > b && b <= N); oob_arm!({ let s = &mut v[a..b]; }) }
        8 => { kani::assume(b > N); oob_arm!({ let s = &mut v[..b]; }) }
        _ => { kani::assume(a > N); oob_arm!({ let s = &mut v[a..]; }) }
    }
}

// ------------------------------------------------------------------------------------------
// matrices
// ------------------------------------------------------------------------------------------
pub trait MatCtor<E: Copy, const N: usize>: Mat<E, N> {
    /// `MatrixN::new(c0r0, c0r1, .., c1r0, ..)`: column-major argument order
    fn via_new(c: [[E; N]; N]) -> Self;
    fn via_cols(c: [[E; N]; N]) -> Self;
}
impl<E: Copy> MatCtor<E, 2> for Matrix2<E> {
    fn via_new(c: [[E; 2]; 2]) -> Self { Matrix2::new(c[0][0], c[0][1], c[1][0], c[1][1]) }
    fn via_cols(c: [[E; 2]; 2]) -> Self { Matrix2::from_cols(Vector2::mk(c[0]), Vector2::mk(c[1])) }
}
impl<E: Copy> MatCtor<E, 3> for Matrix3<E> {
    fn via_new(c: [[E; 3]; 3]) -> Self { Matrix3::new(c[0][0], c[0][1], c[0][2], c[1][0], c[1][1], c[1][2], c[2][0], c[2][1], c[2][2]) }
    fn via_cols(c: [[E; 3]; 3]) -> Self { Matrix3::from_cols(Vector3::mk(c[0]), Vector3::mk(c[1]), Vector3::mk(c[2])) }
}
impl<E: Copy> MatCtor<E, 4> for Matrix4<E> {
    fn via_new(c: [[E; 4]; 4]) -> Self {
        Matrix4::new(c[0][0], c[0][1], c[0][2], c[0][3], c[1][0], c[1][1], c[1][2], c[1][3],
                     c[2][0], c[2][1], c[2][2], c[2][3], c[3][0], c[3][1], c[3][2], c[3][3])
    }
    fn via_cols(c: [[E; 4]; 4]) -> Self { Matrix4::from_cols(Vector4::mk(c[0]), Vector4::mk(c[1]), Vector4::mk(c[2]), Vector4::mk(c[3])) }
}

pub trait MintMat<E: Copy, const N: usize>: Mat<E, N> {
    type M: From<Self> + Into<Self>;
    fn mmk(c: [[E; N]; N]) -> Self::M;
    fn mrd(m: &Self::M) -> [[E; N]; N];
    fn conv(self) -> [[E; N]; N];
}
macro_rules! mint_mat_impl {
    ($T:ident, $M:ident, $V:ident, $conv:ident, $n:expr, { $($f:ident : $i:tt),+ }) => {
        impl<E: Copy> MintMat<E, $n> for $T<E> {
            type M = mint::$M<E>;
            fn mmk(c: [[E; $n]; $n]) -> Self::M { mint::$M { $($f: <$V<E> as MintLin<E, $n>>::mmk(c[$i])),+ } }
            fn mrd(m: &Self::M) -> [[E; $n]; $n] { [$(<$V<E> as MintLin<E, $n>>::mrd(&m.$f)),+] }
            fn conv(self) -> [[E; $n]; $n] { cgmath::conv::$conv(self) }
        }
    };
}
mint_mat_impl!(Matrix2, ColumnMatrix2, Vector2, array2x2, 2, { x: 0, y: 1 });
mint_mat_impl!(Matrix3, ColumnMatrix3, Vector3, array3x3, 3, { x: 0, y: 1, z: 2 });
mint_mat_impl!(Matrix4, ColumnMatrix4, Vector4, array4x4, 4, { x: 0, y: 1, z: 2, w: 3 });

pub fn mat_views<M, E, const N: usize, const NN: usize>()
where
    E: Bits + kani::Arbitrary,
    M: MatCtor<E, N> + MintMat<E, N> + From<[[E; N]; N]> + Into<[[E; N]; N]> + AsRef<[[E; N]; N]> + AsRef<[E; NN]>
        + Index<usize, Output = <M as Mat<E, N>>::Col>,
    <M as Mat<E, N>>::Col: Index<usize, Output = E>,
    for<'a> &'a M: From<&'a [[E; N]; N]> + From<&'a [E; NN]>,
{
    assert!(NN == N * N);
    let c: [[E; N]; N] = kani::any();
    let m = M::mk(c);
    let p = idx::<N>(); // column
    let q = idx::<N>(); // row
    let k = idx::<NN>(); // flat position

    assert!(eq(M::via_new(c).rd()[p][q], c[p][q]), "MatrixN::new takes its arguments column by column");
    assert!(eq(M::via_cols(c).rd()[p][q], c[p][q]), "MatrixN::from_cols stores columns in order");
    let a: [[E; N]; N] = m.into();
    assert!(eq(a[p][q], c[p][q]), "Into<[[S; n]; n]> is column-major");
    assert!(eq(M::from(c).rd()[p][q], c[p][q]), "From<[[S; n]; n]> is column-major");
    let r: &[[E; N]; N] = m.as_ref();
    assert!(eq(r[p][q], c[p][q]), "AsRef<[[S; n]; n]> is column-major");
    let f: &[E; NN] = m.as_ref();
    assert!(eq(f[N * p + q], c[p][q]), "AsRef<[S; n*n]>: flat index n*c + r");
    assert!(eq(f[k], c[k / N][k % N]), "AsRef<[S; n*n]>: every flat position");
    let rm: &M = (&c).into();
    assert!(eq(rm.rd()[p][q], c[p][q]), "<&M>::from(&[[S; n]; n])");
    let flat: [E; NN] = kani::any();
    let rm: &M = (&flat).into();
    assert!(eq(rm.rd()[p][q], flat[N * p + q]), "<&M>::from(&[S; n*n]) is column-major");
    // Index
    let col: &M::Col = &m[p];
    assert!(eq(col.rd()[q], c[p][q]), "Index<usize> returns column p");
    assert!(eq(m[p][q], c[p][q]), "m[c][r]");
    // conv and mint
    assert!(eq(m.conv()[p][q], c[p][q]), "conv::arrayNxN");
    let mm = <<M as MintMat<E, N>>::M as From<M>>::from(m);
    assert!(eq(M::mrd(&mm)[p][q], c[p][q]), "Into<mint::ColumnMatrixN>");
    let back: M = <<M as MintMat<E, N>>::M as Into<M>>::into(M::mmk(c));
    assert!(eq(back.rd()[p][q], c[p][q]), "From<mint::ColumnMatrixN>");
}

fn mat_check_reads<M, E, const N: usize, const NN: usize>(m: &M, exp: &[[E; N]; N])
where
    E: Bits + kani::Arbitrary,
    M: Mat<E, N> + Into<[[E; N]; N]> + AsRef<[[E; N]; N]> + AsRef<[E; NN]> + Index<usize, Output = <M as Mat<E, N>>::Col>,
    <M as Mat<E, N>>::Col: Index<usize, Output = E>,
{
    let p = idx::<N>();
    let q = idx::<N>();
    assert!(eq(m.rd()[p][q], exp[p][q]), "after write: named fields");
    let r: &[[E; N]; N] = m.as_ref();
    assert!(eq(r[p][q], exp[p][q]), "after write: AsRef<[[S; n]; n]>");
    let f: &[E; NN] = m.as_ref();
    assert!(eq(f[N * p + q], exp[p][q]), "after write: AsRef<[S; n*n]>");
    assert!(eq(m[p][q], exp[p][q]), "after write: m[c][r]");
    let a: [[E; N]; N] = (*m).into();
    assert!(eq(a[p][q], exp[p][q]), "after write: Into<[[S; n]; n]>");
}

pub fn mat_writes<M, E, const N: usize, const NN: usize>()
where
    E: Bits + kani::Arbitrary,
    M: Mat<E, N> + Into<[[E; N]; N]> + AsRef<[[E; N]; N]> + AsRef<[E; NN]> + AsMut<[[E; N]; N]> + AsMut<[E; NN]>
        + Index<usize, Output = <M as Mat<E, N>>::Col> + IndexMut<usize>,
    <M as Mat<E, N>>::Col: Index<usize, Output = E> + IndexMut<usize>,
    for<'a> &'a mut M: From<&'a mut [[E; N]; N]> + From<&'a mut [E; NN]>,
{
    assert!(NN == N * N);
    let c: [[E; N]; N] = kani::any();
    let p = idx::<N>();
    let q = idx::<N>();
    let nv: E = kani::any();
    let mut exp = c;
    exp[p][q] = nv;

    { let mut m = M::mk(c); m.set(p, q, nv); mat_check_reads::<M, E, N, NN>(&m, &exp); }
    { let mut m = M::mk(c); m[p][q] = nv; mat_check_reads::<M, E, N, NN>(&m, &exp); }
    { let mut m = M::mk(c); { let a: &mut [[E; N]; N] = m.as_mut(); a[p][q] = nv; } mat_check_reads::<M, E, N, NN>(&m, &exp); }
    { let mut m = M::mk(c); { let f: &mut [E; NN] = m.as_mut(); f[N * p + q] = nv; } mat_check_reads::<M, E, N, NN>(&m, &exp); }
    // whole-column write through IndexMut
    {
        let ncol: [E; N] = kani::any();
        let mut m = M::mk(c);
        m[p] = <M::Col as Lin<E, N>>::mk(ncol);
        let mut e2 = c;
        e2[p] = ncol;
        mat_check_reads::<M, E, N, NN>(&m, &e2);
    }
    // the array is the storage
    { let mut a = c; { let r: &mut M = (&mut a).into(); r.set(p, q, nv); }
      let (p2, q2) = (idx::<N>(), idx::<N>()); assert!(eq(a[p2][q2], exp[p2][q2]), "write through <&mut M>::from(&mut [[S; n]; n])"); }
    { let flat: [E; NN] = kani::any(); let mut a = flat; { let r: &mut M = (&mut a).into(); r.set(p, q, nv); }
      let k = idx::<NN>(); assert!(eq(a[k], if k == N * p + q { nv } else { flat[k] }), "write through <&mut M>::from(&mut [S; n*n]) lands at n*c + r only"); }
    { let flat: [E; NN] = kani::any(); let mut a = flat; { let r: &mut M = (&mut a).into(); r[p][q] = nv; }
      let k = idx::<NN>(); assert!(eq(a[k], if k == N * p + q { nv } else { flat[k] }), "indexed write through <&mut M>::from(&mut [S; n*n])"); }
}

/// `cgmath::Matrix` trait pieces (float element types only): as_ptr, as_mut_ptr, replace_col
pub fn mat_trait<M, E, const N: usize, const NN: usize>()
where
    E: Bits + kani::Arbitrary + BaseFloat,
    M: Mat<E, N> + cgmath::Matrix<Scalar = E, Column = <M as Mat<E, N>>::Col> + AsRef<[E; NN]>,
{
    let c: [[E; N]; N] = kani::any();
    let m = M::mk(c);
    let k = idx::<NN>();
    let ptr = m.as_ptr();
    assert!(eq(unsafe { *ptr.add(k) }, c[k / N][k % N]), "Matrix::as_ptr().add(k) is column-major");

    let nv: E = kani::any();
    let mut w = M::mk(c);
    unsafe { *w.as_mut_ptr().add(k) = nv; }
    let (p, q) = (idx::<N>(), idx::<N>());
    assert!(eq(w.rd()[p][q], if N * p + q == k { nv } else { c[p][q] }), "write through Matrix::as_mut_ptr().add(k)");

    let ncol: [E; N] = kani::any();
    let mut r = M::mk(c);
    let old = r.replace_col(p, <M::Col as Lin<E, N>>::mk(ncol));
    assert!(eq(old.rd()[q], c[p][q]), "replace_col returns the old column");
    let (p2, q2) = (idx::<N>(), idx::<N>());
    assert!(eq(r.rd()[p2][q2], if p2 == p { ncol[q2] } else { c[p2][q2] }), "replace_col replaces exactly column p");

    // Matrix::swap_elements((col, row), (col, row)) exchanges exactly the two named elements
    let (ac, ar, bc, br) = (idx::<N>(), idx::<N>(), idx::<N>(), idx::<N>());
    let mut sw = M::mk(c);
    sw.swap_elements((ac, ar), (bc, br));
    let (p3, q3) = (idx::<N>(), idx::<N>());
    let want = if p3 == ac && q3 == ar { c[bc][br] } else if p3 == bc && q3 == br { c[ac][ar] } else { c[p3][q3] };
    assert!(eq(sw.rd()[p3][q3], want), "Matrix::swap_elements exchanges exactly the named (column, row) elements");
    // swap_columns / swap_rows
    let (i, j) = (idx::<N>(), idx::<N>());
    let mut sc = M::mk(c);
    sc.swap_columns(i, j);
    let pc = if p3 == i { j } else if p3 == j { i } else { p3 };
    assert!(eq(sc.rd()[p3][q3], c[pc][q3]), "Matrix::swap_columns exchanges exactly columns i and j");
    let mut sr = M::mk(c);
    sr.swap_rows(i, j);
    let qr = if q3 == i { j } else if q3 == j { i } else { q3 };
    assert!(eq(sr.rd()[p3][q3], c[p3][qr]), "Matrix::swap_rows exchanges exactly rows i and j");
}

/// Array::swap_elements with an out-of-range position (equal positions included) must panic
pub fn lin_oob_swap<T, E, const N: usize>()
where
    E: Bits + kani::Arbitrary,
    T: Lin<E, N> + Array<Element = E>,
{
    let c: [E; N] = kani::any();
    let mut v = T::mk(c);
    let a: usize = kani::any();
    let b: usize = kani::any();
    kani::assume(a >= N || b >= N);
    oob_arm!({ v.swap_elements(a, b); })
}

/// Matrix::swap_columns / swap_rows / swap_elements with an out-of-range index must panic (float element types only)
pub fn mat_oob_swap<M, E, const N: usize>()
where
    E: Bits + kani::Arbitrary + BaseFloat,
    M: Mat<E, N> + cgmath::Matrix<Scalar = E, Column = <M as Mat<E, N>>::Col>,
{
    let c: [[E; N]; N] = kani::any();
    let mut m = M::mk(c);
    let a: usize = kani::any();
    let b: usize = kani::any();
    let k: u8 = kani::any();
    match k {
        0 => { kani::assume(a >= N || b >= N); oob_arm!({ m.swap_columns(a, b); }) }
        1 => { kani::assume(a >= N || b >= N); oob_arm!({ m.swap_rows(a, b); }) }
        _ => { let (x, y): (usize, usize) = (kani::any(), kani::any());
               kani::assume(a >= N || b >= N || x >= N || y >= N); oob_arm!({ m.swap_elements((a, b), (x, y)); }) }
    }
}

pub fn mat_oob<M, E, const N: usize>()
where
    E: Bits + kani::Arbitrary,
    M: Mat<E, N> + Index<usize, Output = <M as Mat<E, N>>::Col> + IndexMut<usize>,
    <M as Mat<E, N>>::Col: Index<usize, Output = E> + IndexMut<usize>,
{
    let c: [[E; N]; N] = kani::any();
    let nv: E = kani::any();
    let ncol: [E; N] = kani::any();
    let mut m = M::mk(c);
    let a: usize = kani::any();
    let b: usize = kani::any();
    let k: u8 = kani::any();
    match k {
        0 => { kani::assume(a >= N); oob_arm!({ let x = &m[a]; }) }
        1 => { kani::assume(a >= N); oob_arm!({ m[a] = <M::Col as Lin<E, N>>::mk(ncol); }) }
        2 => { kani::assume(a < N && b >= N); oob_arm!({ let x = m[a][b]; }) }
        3 => { kani::assume(a < N && b >= N); oob_arm!({ m[a][b] = nv; }) }
        _ => { kani::assume(a >= N); oob_arm!({ let x = m[a][b]; }) }
    }
}

// ------------------------------------------------------------------------------------------
// map / zip (inherent generic methods, so one concrete body per type), extend / truncate / truncate_n
// ------------------------------------------------------------------------------------------
macro_rules! mapzip_fn {
    ($name:ident, $T:ident, $n:expr) => {
        pub fn $name<E: Bits + kani::Arbitrary>() {
            let c: [E; $n] = kani::any();
            let d: [E; $n] = kani::any();
            let v = <$T<E> as Lin<E, $n>>::mk(c);
            let w = <$T<E> as Lin<E, $n>>::mk(d);
            let m: $T<Wrapped<E>> = v.map(|e| Wrapped(e));
            let j = idx::<$n>();
            assert!(eq(m.rd()[j], Wrapped(c[j])), "map applies f to each field in place");
            let z: $T<(E, E)> = v.zip(w, |a, b| (a, b));
            assert!(eq(z.rd()[j], (c[j], d[j])), "zip pairs equal-named fields");
        }
    };
}
mapzip_fn!(mapzip_v1, Vector1, 1);
mapzip_fn!(mapzip_v2, Vector2, 2);
mapzip_fn!(mapzip_v3, Vector3, 3);
mapzip_fn!(mapzip_v4, Vector4, 4);
mapzip_fn!(mapzip_p1, Point1, 1);
mapzip_fn!(mapzip_p2, Point2, 2);
mapzip_fn!(mapzip_p3, Point3, 3);

pub fn ext_trunc<E: Bits + kani::Arbitrary + BaseNum>() {
    let c: [E; 4] = kani::any();
    let e: E = kani::any();
    let v2 = Vector2::<E>::mk([c[0], c[1]]);
    let v3 = Vector3::<E>::mk([c[0], c[1], c[2]]);
    let v4 = Vector4::<E>::mk(c);
    same!(v2.extend(e).rd(), [c[0], c[1], e], 3, "Vector2::extend appends z");
    same!(v3.extend(e).rd(), [c[0], c[1], c[2], e], 4, "Vector3::extend appends w");
    same!(v3.truncate().rd(), [c[0], c[1]], 2, "Vector3::truncate drops z");
    same!(v4.truncate().rd(), [c[0], c[1], c[2]], 3, "Vector4::truncate drops w");
    let n: isize = kani::any();
    kani::assume(0 <= n && n <= 3);
    let t = v4.truncate_n(n);
    let j = idx::<3>();
    let src = if (j as isize) < n { j } else { j + 1 };
    assert!(eq(t.rd()[j], c[src]), "Vector4::truncate_n(n) drops exactly component n");
}

/// truncate_n outside 0..=3 panics ("<n> is out of range")
pub fn truncate_n_oob<E: Bits + kani::Arbitrary + BaseNum>() {
    let c: [E; 4] = kani::any();
    let v4 = Vector4::<E>::mk(c);
    let n: isize = kani::any();
    kani::assume(n < 0 || n > 3);
    oob_arm!({ let t = v4.truncate_n(n); })
}
