//! C19 harness bodies: `cast()` of compound values is all-or-nothing and component-faithful.
//!
//! Oracle: `<D as num_traits::NumCast>::from(component)` applied to every component separately.
//!   * cast() == None      <=>  some component's scalar cast is None
//!   * cast() == Some(r)    =>  every component of r is bit-identical to the scalar cast of the
//!                              component in the same position (floats compared via to_bits)
//! Every position is compared in a (concretely bounded) loop, so both sides apply the conversion to
//! the very same symbolic component and the solver only has to match identical circuits.
//! All components are `kani::any()`: NaN, +-inf, extremes and every bit pattern included.
//! Covers `reach_some` / `reach_none` show that both outcomes were explored; the driver requires
//! `reach_none` to be SATISFIED exactly for the pairs whose scalar cast can fail (computed from the
//! integer ranges in kanidrv.py); the assertions are the same either way.
//! No float arithmetic happens in the harness; the only float operations are the comparisons and
//! conversions inside num_traits::NumCast itself.
use crate::common::*;
use cgmath::*;
use num_traits::NumCast;

/// `x.cast::<D>()` (an inherent method, hence one trait impl per type family)
pub trait CastVia<TD> {
    fn do_cast(&self) -> Option<TD>;
}
macro_rules! cast_via { ($($T:ident),*) => { $(
    impl<S: NumCast + Copy, D: NumCast> CastVia<$T<D>> for $T<S> { #[inline] fn do_cast(&self) -> Option<$T<D>> { self.cast::<D>() } }
)* } }
cast_via!(Vector1, Vector2, Vector3, Vector4, Point1, Point2, Point3, Matrix2, Matrix3, Matrix4);
// Quaternion::cast requires the target scalar to be BaseFloat
impl<S: NumCast + Copy, D: BaseFloat> CastVia<Quaternion<D>> for Quaternion<S> {
    #[inline] fn do_cast(&self) -> Option<Quaternion<D>> { self.cast::<D>() }
}

pub fn cast_lin<TS, TD, S, D, const N: usize>()
where
    S: NumCast + Copy + kani::Arbitrary,
    D: NumCast + Bits,
    TS: Lin<S, N> + CastVia<TD>,
    TD: Lin<D, N>,
{
    let c: [S; N] = kani::any();
    let v = TS::mk(c);
    let got: Option<TD> = v.do_cast();
    let mut any_none = false;
    let mut i = 0;
    while i < N {
        if <D as NumCast>::from(c[i]).is_none() { any_none = true; }
        i += 1;
    }
    match got {
        None => {
            assert!(any_none, "cast() returned None although every component converts");
            kani::cover!(true, "reach_none");
        }
        Some(r) => {
            assert!(!any_none, "cast() returned Some although a component does not convert");
            let rr = r.rd();
            let mut j = 0;
            while j < N {
                match <D as NumCast>::from(c[j]) {
                    None => assert!(false, "cast() returned Some although component j does not convert"),
                    Some(o) => assert!(eq(rr[j], o), "component j of cast() differs from the scalar cast of component j"),
                }
                j += 1;
            }
            kani::cover!(true, "reach_some");
        }
    }
}

pub fn cast_mat<MS, MD, S, D, const N: usize>()
where
    S: NumCast + Copy + kani::Arbitrary,
    D: NumCast + Bits,
    MS: Mat<S, N> + CastVia<MD>,
    MD: Mat<D, N>,
{
    let c: [[S; N]; N] = kani::any();
    let m = MS::mk(c);
    let got: Option<MD> = m.do_cast();
    let mut any_none = false;
    let mut i = 0;
    while i < N {
        let mut k = 0;
        while k < N {
            if <D as NumCast>::from(c[i][k]).is_none() { any_none = true; }
            k += 1;
        }
        i += 1;
    }
    match got {
        None => {
            assert!(any_none, "cast() returned None although every component converts");
            kani::cover!(true, "reach_none");
        }
        Some(r) => {
            assert!(!any_none, "cast() returned Some although a component does not convert");
            let rr = r.rd();
            let mut p = 0;
            while p < N {
                let mut q = 0;
                while q < N {
                    match <D as NumCast>::from(c[p][q]) {
                        None => assert!(false, "cast() returned Some although component (p, q) does not convert"),
                        Some(o) => assert!(eq(rr[p][q], o), "component (p, q) of cast() differs from the scalar cast of component (p, q)"),
                    }
                    q += 1;
                }
                p += 1;
            }
            kani::cover!(true, "reach_some");
        }
    }
}
