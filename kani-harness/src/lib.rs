//! Engine K: Kani (CBMC) proof harnesses for cgmath properties C16, C19, C20.
//!
//! * `common`  - bit-exact comparison (`Bits`), the non-numeric `Tag` element type, and the
//!               ground-truth traits (`Lin`, `Mat`) that build / read values strictly through
//!               *named public fields* (the specification side of every harness).
//! * `c16`     - generic harness bodies for layout / views / indexing / conversions.
//! * `c19`     - harness bodies for `cast()` against the per-component `NumCast::from` oracle.
//! * `tok`     - in-memory token `Serializer` / `Deserializer` for C20 (no formatting code runs).
//! * `c20`     - serde harness bodies.
//! * `gen_*.rs`- instantiation tables written by /verif/kanidrv.py at run time
//!               (swizzle accessors, cast pairs, type x element tables); git-ignored.
//!
//! Vacuity: every generated `#[kani::proof]` ends in `kani::cover!(true, "end_reached")`, the bodies
//! put covers into their data-dependent branches, and the driver accepts a harness only if all of
//! them are SATISFIED (out-of-range harnesses: `oob_pre` SATISFIED and `oob_post` unreachable).
//!
//! Every `#[kani::proof]` draws all its inputs from `kani::any()`, so Kani's concrete playback
//! (`cargo kani playback`) can re-execute the *same* function natively on a counterexample;
//! that is how the driver confirms a violation against the real (rustc-compiled) cgmath build.
//! No harness performs floating-point arithmetic: floats are only moved and compared via to_bits.
#![allow(unused, non_snake_case, non_camel_case_types)]
#![allow(clippy::all)]

pub mod common;

#[cfg(all(kani, feature = "c16"))]
mod gen_c16;
#[cfg(all(kani, feature = "c16"))]
mod gen_swizzle;

#[cfg(all(kani, feature = "c16"))]
pub mod c16;
#[cfg(all(kani, feature = "c19"))]
pub mod c19;
#[cfg(all(kani, feature = "c19"))]
mod gen_cast;

#[cfg(feature = "c20")]
pub mod tok;
#[cfg(all(kani, feature = "c20"))]
pub mod c20;
#[cfg(all(kani, feature = "c20"))]
mod gen_c20;
