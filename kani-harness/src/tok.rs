//! C20: a minimal in-memory token format for serde.
//!
//! `Ser` writes a value into a fixed `[Tok; CAP]` buffer, `De` reads one back.  The format keeps
//! exactly the structure serde hands over: struct names and lengths, field names, newtype names,
//! and the scalar payloads bit for bit (floats as their IEEE bits), so a round trip through it is
//! lossless by construction and any loss or reordering is the (de)serialization code's doing.
//! The error type's constructors ignore their arguments: no formatting code is ever executed.
use serde::{ser, de, Serialize, Deserialize};
use std::fmt;

#[derive(Copy, Clone, PartialEq, Debug)]
pub enum Tok { F64(u64), F32(u32), I32(i32), I64(i64), U64(u64), Struct(&'static str, usize), Field(&'static str), End, Newtype(&'static str), Tuple(usize), None_ }
pub const CAP: usize = 56;
pub struct Buf { pub t: [Tok; CAP], pub n: usize }
impl Buf { pub fn new() -> Buf { Buf { t: [Tok::None_; CAP], n: 0 } }
    /// specification-side append (capacity is asserted, never silently dropped)
    pub fn put(&mut self, t: Tok) { assert!(self.n < CAP, "token buffer capacity"); self.t[self.n] = t; self.n += 1; }
    /// append all tokens of `o`
    pub fn append(&mut self, o: &Buf) { let mut k = 0; while k < o.n { self.put(o.t[k]); k += 1; } }
    pub fn push(&mut self, t: Tok) -> Result<(), E> { if self.n >= CAP { return Err(E) } self.t[self.n] = t; self.n += 1; Ok(()) } }
#[derive(Debug)] pub struct E;
impl fmt::Display for E { fn fmt(&self, _: &mut fmt::Formatter) -> fmt::Result { Ok(()) } }
impl std::error::Error for E {}
impl ser::Error for E { fn custom<T: fmt::Display>(_: T) -> Self { E } }
impl de::Error for E { fn custom<T: fmt::Display>(_: T) -> Self { E }
    fn missing_field(_: &'static str) -> Self { E } fn unknown_field(_: &str, _: &'static [&'static str]) -> Self { E }
    fn invalid_type(_: de::Unexpected, _: &dyn de::Expected) -> Self { E } fn invalid_value(_: de::Unexpected, _: &dyn de::Expected) -> Self { E }
    fn invalid_length(_: usize, _: &dyn de::Expected) -> Self { E } fn unknown_variant(_: &str, _: &'static [&'static str]) -> Self { E }
    fn duplicate_field(_: &'static str) -> Self { E } }

pub struct Ser<'a>(pub &'a mut Buf);
macro_rules! unsup { ($($f:ident($($t:ty),*)),*) => { $( fn $f(self, $(_: $t),*) -> Result<(), E> { Err(E) } )* } }
impl<'a, 'b> ser::Serializer for &'b mut Ser<'a> {
    type Ok = (); type Error = E;
    type SerializeSeq = ser::Impossible<(), E>; type SerializeTuple = Self; type SerializeTupleStruct = ser::Impossible<(), E>;
    type SerializeTupleVariant = ser::Impossible<(), E>; type SerializeMap = ser::Impossible<(), E>;
    type SerializeStruct = Self; type SerializeStructVariant = ser::Impossible<(), E>;
    unsup!(serialize_bool(bool), serialize_i8(i8), serialize_i16(i16), serialize_u8(u8), serialize_u16(u16), serialize_u32(u32),
           serialize_char(char), serialize_str(&str), serialize_bytes(&[u8]), serialize_none(), serialize_unit(), serialize_unit_struct(&'static str),
           serialize_unit_variant(&'static str, u32, &'static str));
    fn serialize_i32(self, v: i32) -> Result<(), E> { self.0.push(Tok::I32(v)) }
    fn serialize_i64(self, v: i64) -> Result<(), E> { self.0.push(Tok::I64(v)) }
    fn serialize_u64(self, v: u64) -> Result<(), E> { self.0.push(Tok::U64(v)) }
    fn serialize_f32(self, v: f32) -> Result<(), E> { self.0.push(Tok::F32(v.to_bits())) }
    fn serialize_f64(self, v: f64) -> Result<(), E> { self.0.push(Tok::F64(v.to_bits())) }
    fn serialize_some<T: ?Sized + Serialize>(self, _: &T) -> Result<(), E> { Err(E) }
    fn serialize_newtype_struct<T: ?Sized + Serialize>(self, n: &'static str, v: &T) -> Result<(), E> { self.0.push(Tok::Newtype(n))?; v.serialize(self) }
    fn serialize_newtype_variant<T: ?Sized + Serialize>(self, _: &'static str, _: u32, _: &'static str, _: &T) -> Result<(), E> { Err(E) }
    fn serialize_seq(self, _: Option<usize>) -> Result<Self::SerializeSeq, E> { Err(E) }
    fn serialize_tuple(self, n: usize) -> Result<Self, E> { self.0.push(Tok::Tuple(n))?; Ok(self) }
    fn serialize_tuple_struct(self, _: &'static str, _: usize) -> Result<Self::SerializeTupleStruct, E> { Err(E) }
    fn serialize_tuple_variant(self, _: &'static str, _: u32, _: &'static str, _: usize) -> Result<Self::SerializeTupleVariant, E> { Err(E) }
    fn serialize_map(self, _: Option<usize>) -> Result<Self::SerializeMap, E> { Err(E) }
    fn serialize_struct(self, n: &'static str, l: usize) -> Result<Self, E> { self.0.push(Tok::Struct(n, l))?; Ok(self) }
    fn serialize_struct_variant(self, _: &'static str, _: u32, _: &'static str, _: usize) -> Result<Self::SerializeStructVariant, E> { Err(E) }
}
impl<'a, 'b> ser::SerializeStruct for &'b mut Ser<'a> { type Ok = (); type Error = E;
    fn serialize_field<T: ?Sized + Serialize>(&mut self, k: &'static str, v: &T) -> Result<(), E> { self.0.push(Tok::Field(k))?; v.serialize(&mut **self) }
    fn end(self) -> Result<(), E> { self.0.push(Tok::End) } }
impl<'a, 'b> ser::SerializeTuple for &'b mut Ser<'a> { type Ok = (); type Error = E;
    fn serialize_element<T: ?Sized + Serialize>(&mut self, v: &T) -> Result<(), E> { v.serialize(&mut **self) }
    fn end(self) -> Result<(), E> { self.0.push(Tok::End) } }

pub struct De<'a> { pub b: &'a Buf, pub p: usize }
impl<'a> De<'a> { fn next(&mut self) -> Result<Tok, E> { if self.p >= self.b.n { return Err(E) } let t = self.b.t[self.p]; self.p += 1; Ok(t) }
    fn peek(&self) -> Result<Tok, E> { if self.p >= self.b.n { return Err(E) } Ok(self.b.t[self.p]) } }
macro_rules! deunsup { ($($f:ident),*) => { $( fn $f<V: de::Visitor<'de>>(self, _: V) -> Result<V::Value, E> { Err(E) } )* } }
impl<'de, 'a, 'b> de::Deserializer<'de> for &'b mut De<'a> {
    type Error = E;
    deunsup!(deserialize_any, deserialize_bool, deserialize_i8, deserialize_i16, deserialize_u8, deserialize_u16, deserialize_u32,
             deserialize_char, deserialize_string, deserialize_bytes, deserialize_byte_buf, deserialize_option, deserialize_unit, deserialize_seq, deserialize_map, deserialize_ignored_any);
    fn deserialize_i32<V: de::Visitor<'de>>(self, v: V) -> Result<V::Value, E> { match self.next()? { Tok::I32(x) => v.visit_i32(x), _ => Err(E) } }
    fn deserialize_i64<V: de::Visitor<'de>>(self, v: V) -> Result<V::Value, E> { match self.next()? { Tok::I64(x) => v.visit_i64(x), _ => Err(E) } }
    fn deserialize_u64<V: de::Visitor<'de>>(self, v: V) -> Result<V::Value, E> { match self.next()? { Tok::U64(x) => v.visit_u64(x), _ => Err(E) } }
    fn deserialize_f32<V: de::Visitor<'de>>(self, v: V) -> Result<V::Value, E> { match self.next()? { Tok::F32(x) => v.visit_f32(f32::from_bits(x)), _ => Err(E) } }
    fn deserialize_f64<V: de::Visitor<'de>>(self, v: V) -> Result<V::Value, E> { match self.next()? { Tok::F64(x) => v.visit_f64(f64::from_bits(x)), _ => Err(E) } }
    fn deserialize_str<V: de::Visitor<'de>>(self, v: V) -> Result<V::Value, E> { match self.next()? { Tok::Field(s) => v.visit_str(s), _ => Err(E) } }
    fn deserialize_identifier<V: de::Visitor<'de>>(self, v: V) -> Result<V::Value, E> { match self.next()? { Tok::Field(s) => v.visit_str(s), _ => Err(E) } }
    fn deserialize_unit_struct<V: de::Visitor<'de>>(self, _: &'static str, _: V) -> Result<V::Value, E> { Err(E) }
    fn deserialize_newtype_struct<V: de::Visitor<'de>>(self, n: &'static str, v: V) -> Result<V::Value, E> { match self.next()? { Tok::Newtype(m) if m == n => v.visit_newtype_struct(self), _ => Err(E) } }
    fn deserialize_tuple<V: de::Visitor<'de>>(self, n: usize, v: V) -> Result<V::Value, E> { match self.next()? { Tok::Tuple(m) if m == n => { let r = v.visit_seq(SeqA { d: &mut *self, left: n })?; match self.next()? { Tok::End => Ok(r), _ => Err(E) } }, _ => Err(E) } }
    fn deserialize_tuple_struct<V: de::Visitor<'de>>(self, _: &'static str, _: usize, _: V) -> Result<V::Value, E> { Err(E) }
    fn deserialize_struct<V: de::Visitor<'de>>(self, n: &'static str, _f: &'static [&'static str], v: V) -> Result<V::Value, E> {
        match self.next()? { Tok::Struct(m, _) if m == n => { let r = v.visit_map(MapA { d: &mut *self })?; match self.next()? { Tok::End => Ok(r), _ => Err(E) } }, _ => Err(E) } }
    fn deserialize_enum<V: de::Visitor<'de>>(self, _: &'static str, _: &'static [&'static str], _: V) -> Result<V::Value, E> { Err(E) }
}
struct MapA<'x, 'a> { d: &'x mut De<'a> }
impl<'de, 'x, 'a> de::MapAccess<'de> for MapA<'x, 'a> { type Error = E;
    fn next_key_seed<K: de::DeserializeSeed<'de>>(&mut self, s: K) -> Result<Option<K::Value>, E> { match self.d.peek()? { Tok::End => Ok(None), Tok::Field(_) => s.deserialize(&mut *self.d).map(Some), _ => Err(E) } }
    fn next_value_seed<K: de::DeserializeSeed<'de>>(&mut self, s: K) -> Result<K::Value, E> { s.deserialize(&mut *self.d) } }
struct SeqA<'x, 'a> { d: &'x mut De<'a>, left: usize }
impl<'de, 'x, 'a> de::SeqAccess<'de> for SeqA<'x, 'a> { type Error = E;
    fn next_element_seed<K: de::DeserializeSeed<'de>>(&mut self, s: K) -> Result<Option<K::Value>, E> { if self.left == 0 { return Ok(None) } self.left -= 1; s.deserialize(&mut *self.d).map(Some) } }

