#!/bin/bash
# Run once after a fresh restore, offline: pre-build the harness crates so later runs are incremental.
set -u
cd "$(dirname "$0")"
export CARGO_NET_OFFLINE=true
mkdir -p .build evidence
cp /repo/Cargo.lock harness/Cargo.lock 2>/dev/null || true
# warm the native replay build and the nightly MIR build of cgmath for one property; each check builds its own feature set on demand
(cd harness && cargo build --offline --features native,c02 --bin replay --target-dir ../.build/native-c02 >/dev/null 2>&1) || echo "setup: native warm-up build failed (checks will retry)"
exit 0
