#!/bin/bash
# usage: mirdump.sh <feature> <out.mir> [opt-level]
set -e
FEAT=$1; OUT=$2; OPT=${3:-2}
cd /verif/harness
cp /repo/Cargo.lock Cargo.lock 2>/dev/null || true
export CARGO_NET_OFFLINE=true
export RUSTFLAGS="-Zalways-encode-mir -Zinline-mir=yes -Zinline-mir-threshold=100000 -Zinline-mir-hint-threshold=100000 -Zinline-mir-forwarder-threshold=100000 -Zmir-opt-level=$OPT -Cdebug-assertions=off -Coverflow-checks=off --cap-lints allow"
touch src/lib.rs
cargo +nightly rustc --offline --lib --features "$FEAT" --target-dir /verif/.build/mir-$FEAT-o$OPT -- -Zunpretty=mir > "$OUT" 2> "$OUT.err" || { tail -40 "$OUT.err"; exit 1; }
