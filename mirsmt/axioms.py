"""Quantifier-free instances of the axioms / contracts of the opaque scalar functions.

This is the trusted mathematical base of REAL mode (DESIGN 1.1(d)): every instance emitted for
a query is recorded in the evidence.  Opaque applications are printed as constants; congruence
is restored by explicit Ackermann constraints.
"""
from fractions import Fraction
import itertools

from .terms import (T, is_sym, node, sort_of, var, arith, neg, cmp, bnot, band, bor, ite, app, conj, disj, implies, subterms, to_real)

PI_LO = Fraction(3141592653589793, 10 ** 15)
PI_HI = Fraction(3141592653589794, 10 ** 15)


def pi():
    return var('pi', 'Real')


# ---------------------------------------------------------------- polynomial normal form of argument terms
def poly(x, memo):
    """dict: monomial (sorted tuple of (atom handle index, power)) -> Fraction.  Atoms: anything
    that is not + - * neg or division by a constant."""
    if not is_sym(x):
        c = Fraction(x)
        return {(): c} if c != 0 else {}
    r = memo.get(x[1])
    if r is not None:
        return r
    k = node(x)
    if k[0] == '+':
        r = padd(poly(k[1], memo), poly(k[2], memo), 1)
    elif k[0] == '-':
        r = padd(poly(k[1], memo), poly(k[2], memo), -1)
    elif k[0] == 'neg':
        r = padd({}, poly(k[1], memo), -1)
    elif k[0] == '*':
        r = pmul(poly(k[1], memo), poly(k[2], memo))
    elif k[0] == '/' and not is_sym(k[2]) and Fraction(k[2]) != 0:
        r = {m: c / Fraction(k[2]) for m, c in poly(k[1], memo).items()}
    elif k[0] == '/' and is_const_poly(poly(k[2], memo)):
        d = poly(k[2], memo)[()]
        r = {m: c / d for m, c in poly(k[1], memo).items()}
    else:
        r = {((x[1], 1),): Fraction(1)}
    memo[x[1]] = r
    return r


_canon_memo = [None, {}, {}, {}]


def canon_origins(x):
    """the (up to 4) terms, as the code wrote them, whose canonical form is x"""
    if is_sym(x) and _canon_memo[0] is T.lst:
        return _canon_memo[3].get(x[1], [])
    return []


def canon(x):
    """Canonical representative of a Real term modulo the commutative-ring identities (+, -, *, division by constants):
    polynomial normal form over the non-arithmetic sub-terms, rebuilt in a fixed order.  Used for the ARGUMENTS of opaque
    applications in REAL mode, so that sin(t*(1-a)) and sin(t - t*a), or sqrt(x*x+y*y) and sqrt(y*y+x*x), are one term
    (congruence by construction instead of by a nonlinear solver query)."""
    if not is_sym(x) or sort_of(x) != 'Real':
        return x
    if _canon_memo[0] is not T.lst:
        _canon_memo[0] = T.lst
        _canon_memo[1] = {}
        _canon_memo[2] = {}
        _canon_memo[3] = {}
    r = _canon_memo[2].get(x[1])
    if r is not None:
        return r
    k = node(x)
    if k[0] not in ('+', '-', '*', 'neg', '/'):
        return x
    pl = poly(x, _canon_memo[1])
    if len(pl) > 400:
        return x
    r = Fraction(0)
    for m in sorted(pl):
        t = pl[m]
        for at, pw in m:
            for _ in range(pw):
                t = arith('*', t, ('t', at))
        r = arith('+', r, t)
    _canon_memo[2][x[1]] = r
    if is_sym(r):
        _canon_memo[2][r[1]] = r
        if r != x:
            lst = _canon_memo[3].setdefault(r[1], [])
            if len(lst) < 4 and x not in lst:
                lst.append(x)
    return r


def is_const_poly(p):
    return len(p) == 1 and () in p and p[()] != 0


def padd(a, b, sign):
    r = dict(a)
    for m, c in b.items():
        v = r.get(m, 0) + sign * c
        if v == 0:
            r.pop(m, None)
        else:
            r[m] = v
    return r


def pmul(a, b):
    r = {}
    for m1, c1 in a.items():
        for m2, c2 in b.items():
            d = dict(m1)
            for at, pw in m2:
                d[at] = d.get(at, 0) + pw
            m = tuple(sorted(d.items()))
            v = r.get(m, 0) + c1 * c2
            if v == 0:
                r.pop(m, None)
            else:
                r[m] = v
    return r


def pscale(a, c):
    return {m: v * c for m, v in a.items()} if c != 0 else {}


def peq(a, b):
    return a == b


def is_sos(x, depth=0):
    """syntactic sum of squares (=> non-negative)"""
    if not is_sym(x):
        return Fraction(x) >= 0
    k = node(x)
    if k[0] == '+':
        return is_sos(k[1]) and is_sos(k[2])
    if k[0] == '*':
        if k[1] == k[2]:
            return True
        if not is_sym(k[1]) and Fraction(k[1]) >= 0:
            return is_sos(k[2])
        if not is_sym(k[2]) and Fraction(k[2]) >= 0:
            return is_sos(k[1])
        return is_sos(k[1]) and is_sos(k[2]) and False
    return False


def absv(x):
    if not is_sym(x):
        return abs(x)
    return ite(cmp('>=', x, 0), x, neg(x))


def maxv(a, b):
    return ite(cmp('>=', a, b), a, b)


class Axioms:
    """Collects axiom instances for the opaque applications reachable from a set of roots."""

    def __init__(s, opts=None):
        s.opts = opts or {}
        s.out = []        # list of (group, term)
        s.groups = {}
        s.done = set()

    def add(s, group, t):
        if t is True:
            return
        s.out.append((group, t))
        s.groups[group] = s.groups.get(group, 0) + 1

    def sin(s, t):
        return app('sin', 'Real', t)

    def cos(s, t):
        return app('cos', 'Real', t)

    def collect(s, roots, rounds=3):
        seen_apps = {}
        for rnd in range(rounds):
            allroots = list(roots) + [t for _, t in s.out]
            idx = subterms(allroots)
            apps = {}
            haspi = False
            for i in idx:
                k = T.lst[i]
                if k[0] == 'app':
                    apps.setdefault(k[1], []).append(('t', i))
                elif k[0] == 'var' and k[1] == 'pi':
                    haspi = True
            before = len(s.out)
            s.instantiate(apps, haspi, last=(rnd == rounds - 1))
            if len(s.out) == before:
                break
        # Ackermann congruence over the final set of applications
        allroots = list(roots) + [t for _, t in s.out]
        idx = subterms(allroots)
        apps = {}
        for i in idx:
            k = T.lst[i]
            if k[0] == 'app':
                apps.setdefault(k[1], []).append(('t', i))
        for f, lst in apps.items():
            if len(lst) > 14:
                continue
            for a, b in itertools.combinations(lst, 2):
                ka, kb = node(a), node(b)
                if len(ka) != len(kb) or len(ka) == 2:
                    continue
                eqs = [cmp('=', x, y) for x, y in zip(ka[2:], kb[2:])]
                if any(e is False for e in eqs):
                    continue
                s.add('congruence', implies(conj(eqs), cmp('=', a, b)))
        return [t for _, t in s.out]

    def once(s, key):
        if key in s.done:
            return False
        s.done.add(key)
        return True

    def instantiate(s, apps, haspi, last=False):
        o = s.opts
        if haspi and s.once('pi'):
            s.add('pi-bounds', band(cmp('<', PI_LO, pi()), cmp('<', pi(), PI_HI)))
        for w in apps.get('sqrt', []):
            if not s.once(('sqrt', w)):
                continue
            t = node(w)[2]
            body = band(cmp('>=', w, 0), cmp('=', arith('*', w, w), t))
            # the argument is canonical (expanded); the forms the code wrote are equal to it over the reals and are
            # often syntactic sums of squares, which spares the solver a non-linear sign proof
            origs = canon_origins(t)
            for o_ in origs:
                body = band(body, cmp('=', arith('*', w, w), o_))
            if is_sos(t) or any(is_sos(o_) for o_ in origs):
                s.add('sqrt', body)
            else:
                s.add('sqrt', implies(cmp('>=', t, 0), body))
        for w in apps.get('fmod', []):
            if not s.once(('fmod', w)):
                continue
            a, m = node(w)[2], node(w)[3]
            k = app('fmod_k', 'Int', a, m)
            kr = T.mk('Real', 'to_real', k)
            if not is_sym(m) and Fraction(m) > 0:
                # constant positive modulus (a full turn): linear mixed integer/real contract, no case split
                s.add('fmod', conj([
                    cmp('=', w, arith('-', a, arith('*', kr, m))), cmp('<', w, m), cmp('>', w, neg(m)),
                    implies(cmp('>=', a, 0), cmp('>=', w, 0)), implies(cmp('<=', a, 0), cmp('<=', w, 0))]))
                continue
            s.add('fmod', implies(cmp('!=', m, 0), conj([
                cmp('=', w, arith('-', a, arith('*', kr, m))),
                cmp('<', absv(w), absv(m)),
                implies(cmp('>=', a, 0), cmp('>=', w, 0)),
                implies(cmp('<=', a, 0), cmp('<=', w, 0))])))
        # integer division / remainder truncate toward zero (Rust semantics), expressed with SMT-LIB's Euclidean div
        for fname, lst in apps.items():
            if not (fname.startswith('idiv_') or fname.startswith('irem_')):
                continue
            for w in lst:
                if not s.once(('idiv', w)):
                    continue
                a, b = node(w)[2], node(w)[3]
                na = neg(a, 'Int')
                q = ite(cmp('>=', a, 0), T.mk('Int', 'div', a, b), neg(T.mk('Int', 'div', na, b), 'Int'), 'Int')
                val = q if fname.startswith('idiv_') else arith('-', a, arith('*', b, q, 'Int'), 'Int')
                s.add('integer-division', implies(cmp('!=', b, 0), cmp('=', w, val)))
        for w in apps.get('fpfmod', []):
            if not s.once(('fpfmod', w)):
                continue
            a, m = node(w)[2], node(w)[3]
            fs = sort_of(w)
            fin = lambda x: band(bnot(T.mk('Bool', 'fp.isNaN', x)), bnot(T.mk('Bool', 'fp.isInfinite', x)))
            ab = lambda x: T.mk(fs, 'fp.abs', x) if is_sym(x) else abs(float(x))
            zero = 0.0
            # IEEE fmod (C fmod / Rust %): for finite a and finite non-zero m the result is finite, |r| < |m|, and has the sign of a
            if not is_sym(m):
                if float(m) == 0.0 or float(m) != float(m) or float(m) in (float('inf'), float('-inf')):
                    continue
                pre = fin(a) if is_sym(a) else True
            else:
                pre = band(band(fin(a), fin(m)), bnot(T.mk('Bool', 'fp.eq', m, zero)))
            s.add('fpfmod', implies(pre, conj([
                fin(w), T.mk('Bool', 'fp.lt', ab(w), ab(m)),
                implies(T.mk('Bool', 'fp.geq', a, zero), T.mk('Bool', 'fp.geq', w, zero)),
                implies(T.mk('Bool', 'fp.leq', a, zero), T.mk('Bool', 'fp.leq', w, zero))])))
        for w in apps.get('ulps_eq', []):
            if not s.once(('ulps', w)):
                continue
            a, b, e, m = node(w)[2:6]
            d = absv(arith('-', a, b))
            mm = to_real(m)
            rel = arith('+', arith('*', arith('*', mm, Fraction(1, 2 ** 52)), maxv(absv(a), absv(b))), Fraction(1, 2 ** 1000))
            s.add('ulps_eq-contract', implies(cmp('<=', d, e), w))
            s.add('ulps_eq-contract', implies(w, bor(cmp('<=', d, e), band(cmp('>=', arith('*', a, b), 0), cmp('<=', d, rel)))))
            sym = app('ulps_eq', 'Bool', b, a, e, m)
            if sym != w and sym[1] < len(T.lst) and s.once(('ulps-sym', min(w[1], sym[1]), max(w[1], sym[1]))):
                pass
        lst = apps.get('ulps_eq', [])
        for x, y in itertools.combinations(lst, 2):
            kx, ky = node(x), node(y)
            if kx[2] == ky[3] and kx[3] == ky[2] and kx[4] == ky[4] and kx[5] == ky[5] and s.once(('ulps-sym', x, y)):
                s.add('ulps_eq-contract', cmp('=', x, y))
        for w in apps.get('relative_eq', []):
            if not s.once(('rel', w)):
                continue
            a, b, e, r = node(w)[2:6]
            d = absv(arith('-', a, b))
            s.add('relative_eq-def', cmp('=', w, bor(cmp('<=', d, e), cmp('<=', d, arith('*', maxv(absv(a), absv(b)), r)))))
        # ------------------------------------------------ trigonometry
        if o.get('trig', True):
            s.trig(apps, last)

    def trig(s, apps, last):
        o = s.opts
        args = []
        for f in ('sin', 'cos', 'tan'):
            for w in apps.get(f, []):
                t = node(w)[2]
                if t not in args:
                    args.append(t)
        # inverse functions: their value is an angle
        for w in apps.get('asin', []):
            if s.once(('asin', w)):
                u = node(w)[2]
                s.add('asin', implies(band(cmp('<=', -1, u), cmp('<=', u, 1)), conj([
                    cmp('=', s.sin(w), u), cmp('>=', s.cos(w), 0),
                    cmp('<=', neg(arith('/', pi(), 2)), w), cmp('<=', w, arith('/', pi(), 2))])))
            if w not in args:
                args.append(w)
        for w in apps.get('acos', []):
            if s.once(('acos', w)):
                u = node(w)[2]
                s.add('acos', implies(band(cmp('<=', -1, u), cmp('<=', u, 1)), conj([
                    cmp('=', s.cos(w), u), cmp('>=', s.sin(w), 0),
                    cmp('<=', 0, w), cmp('<=', w, pi())])))
            if w not in args:
                args.append(w)
        for w in apps.get('atan', []):
            if s.once(('atan', w)):
                u = node(w)[2]
                s.add('atan', conj([cmp('=', s.sin(w), arith('*', u, s.cos(w))), cmp('>', s.cos(w), 0),
                                    cmp('<', neg(arith('/', pi(), 2)), w), cmp('<', w, arith('/', pi(), 2))]))
            if w not in args:
                args.append(w)
        for w in apps.get('atan2', []):
            if s.once(('atan2', w)):
                y, x = node(w)[2], node(w)[3]
                # the radius is the sqrt application a harness can also name: sqrt(x*x + y*y)
                r = app('sqrt', 'Real', canon(arith('+', arith('*', x, x), arith('*', y, y))))
                nz = bor(cmp('!=', x, 0), cmp('!=', y, 0))
                s.add('atan2', implies(nz, conj([
                    cmp('>', r, 0), cmp('=', arith('*', r, r), arith('+', arith('*', x, x), arith('*', y, y))),
                    cmp('=', arith('*', r, s.sin(w)), y), cmp('=', arith('*', r, s.cos(w)), x),
                    cmp('<=', neg(pi()), w), cmp('<=', w, pi()),
                    implies(cmp('>', y, 0), band(cmp('>', w, 0), cmp('<', w, pi()))),
                    implies(cmp('<', y, 0), band(cmp('<', w, 0), cmp('>', w, neg(pi())))),
                    implies(band(cmp('=', y, 0), cmp('>', x, 0)), cmp('=', w, 0)),
                    implies(band(cmp('=', y, 0), cmp('<', x, 0)), cmp('=', w, pi()))])))
                s.add('atan2', implies(bnot(nz), cmp('=', w, 0)))
            if w not in args:
                args.append(w)
        if not args:
            return
        memo = {}
        P = [(t, poly(t, memo)) for t in args]
        pip = poly(pi(), memo)
        for t, pt in P:
            if s.once(('pyth', t)):
                si, co = s.sin(t), s.cos(t)
                s.add('sin2+cos2=1', cmp('=', arith('+', arith('*', si, si), arith('*', co, co)), 1))
            if not is_sym(t) or True:
                # special values: t == c * pi for c in {0, 1/2, 1, 2, -1/2, -1, 3/2}
                for c, (sv, cv) in ((0, (0, 1)), (Fraction(1, 2), (1, 0)), (1, (0, -1)), (2, (0, 1)), (Fraction(-1, 2), (-1, 0)), (-1, (0, -1)), (Fraction(3, 2), (-1, 0))):
                    if peq(pt, pscale(pip, c)) and s.once(('special', t)):
                        s.add('trig-special-values', band(cmp('=', s.sin(t), sv), cmp('=', s.cos(t), cv)))
        for w in apps.get('tan', []):
            if s.once(('tan', w)):
                t = node(w)[2]
                s.add('tan=sin/cos', implies(cmp('!=', s.cos(t), 0), cmp('=', arith('*', w, s.cos(t)), s.sin(t))))
                if o.get('tan_sign', True):
                    s.add('tan-sign', implies(band(cmp('>', t, 0), cmp('<', t, arith('/', pi(), 2))), band(cmp('>', w, 0), cmp('>', s.cos(t), 0))))
        if o.get('trig_sign', False):
            for t, pt in P:
                if s.once(('sign', t)):
                    s.add('trig-sign', implies(band(cmp('>', t, 0), cmp('<', t, pi())), cmp('>', s.sin(t), 0)))
                    s.add('trig-sign', implies(band(cmp('>', t, neg(pi())), cmp('<', t, 0)), cmp('<', s.sin(t), 0)))
                    s.add('trig-sign', implies(band(cmp('>', t, neg(arith('/', pi(), 2))), cmp('<', t, arith('/', pi(), 2))), cmp('>', s.cos(t), 0)))
        # linear relations between argument terms
        for (t, pt), (u, pu) in itertools.permutations(P, 2):
            if peq(pt, pscale(pu, 2)) and s.once(('double', t, u)):
                s.add('double-angle', band(
                    cmp('=', s.sin(t), arith('*', arith('*', 2, s.sin(u)), s.cos(u))),
                    cmp('=', s.cos(t), arith('-', arith('*', s.cos(u), s.cos(u)), arith('*', s.sin(u), s.sin(u))))))
            if peq(pt, pscale(pu, -1)) and t[1] < u[1] and s.once(('neg', t, u)):
                s.add('parity', band(cmp('=', s.sin(t), neg(s.sin(u))), cmp('=', s.cos(t), s.cos(u))))
            if pt and pu and peq(pt, pu) and t[1] < u[1] and s.once(('same', t, u)):
                s.add('congruence', band(cmp('=', s.sin(t), s.sin(u)), cmp('=', s.cos(t), s.cos(u))))
        if len(P) <= 8:
            for (t, pt) in P:
                for (u, pu), (v, pv) in itertools.combinations(P, 2):
                    if u == t or v == t:
                        continue
                    if peq(pt, padd(pu, pv, 1)) and s.once(('sum', t, u, v)):
                        s.add('angle-addition', band(
                            cmp('=', s.sin(t), arith('+', arith('*', s.sin(u), s.cos(v)), arith('*', s.cos(u), s.sin(v)))),
                            cmp('=', s.cos(t), arith('-', arith('*', s.cos(u), s.cos(v)), arith('*', s.sin(u), s.sin(v))))))
                for (u, pu), (v, pv) in itertools.permutations(P, 2):
                    if u == t or v == t:
                        continue
                    if peq(pt, padd(pu, pv, -1)) and s.once(('diff', t, u, v)):
                        s.add('angle-subtraction', band(
                            cmp('=', s.sin(t), arith('-', arith('*', s.sin(u), s.cos(v)), arith('*', s.cos(u), s.sin(v)))),
                            cmp('=', s.cos(t), arith('+', arith('*', s.cos(u), s.cos(v)), arith('*', s.sin(u), s.sin(v))))))
