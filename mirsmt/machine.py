"""Symbolic / concrete executor for the harness crate's MIR ("Miri with symbolic scalars").

Memory model: every local is a flat list of leaves in declaration order; a pointer is
(object, leaf offset); Transmute between reference views is the identity on (object, offset).
Values are concrete Python numbers or hash-consed SMT terms.  Symbolic branches fork the path;
each fork asks the solver whether the extended path condition is satisfiable.
"""
import math
import re
import struct
from fractions import Fraction

from . import mir
from .mir import MirError, nleaves, norm_ty, pointee, is_ptr, is_unsized, field_off, array_parts, ty_split_adt, INT_BITS, FLOATS
from .terms import (T, is_sym, node, sort_of, var, arith, neg, cmp, bnot, band, bor, ite, app, conj, disj, to_real, show, substitute)

UNINIT = 'uninit'
EPS = Fraction(1, 2 ** 52)


def shim_name(fname):
    """un-inlined cgmath call -> local shim whose printed body is that cgmath function (tools/gen_shims.py)"""
    m = re.match(r'^<(.*) as Into<(.*)>>::into$', fname)
    if m:
        fname = '<%s as From<%s>>::from' % (m.group(2), m.group(1))
    return 'shim_' + re.sub(r'[^A-Za-z0-9]+', '_', fname).strip('_')


class Ptr:
    __slots__ = ('obj', 'off')

    def __init__(s, obj, off):
        s.obj = obj
        s.off = off

    def __eq__(s, o):
        return isinstance(o, Ptr) and s.obj == o.obj and s.off == o.off

    def __hash__(s):
        return hash((s.obj, s.off))

    def __repr__(s):
        return 'Ptr(%s+%d)' % (s.obj, s.off)


class Str:
    __slots__ = ('s',)

    def __init__(s, v):
        s.s = v

    def __repr__(s):
        return 'Str(%r)' % s.s


class Panic(Exception):
    pass


class Fuel(Exception):
    pass


class Concretize(Exception):
    def __init__(s, term, n):
        s.term = term
        s.n = n


class Frame:
    __slots__ = ('fn', 'fid', 'dst', 'ret_bb', 'apply')

    def __init__(s, fn, fid, dst, ret_bb, apply=None):
        s.fn = fn
        s.fid = fid
        s.dst = dst
        s.ret_bb = ret_bb
        s.apply = apply      # name of the lemma function being applied (DESIGN 1.1(h)), or None


class Path:
    def __init__(s):
        s.mem = {}
        s.pc = []
        s.stack = []
        s.counts = {}
        s.may_panic = False
        s.nfid = 0
        s.events = []
        s.pid = 0
        s.rng = []          # ERR mode: "this rounded intermediate is a normal finite float" conditions collected so far

    def clone(s):
        p = Path()
        p.mem = {k: list(v) for k, v in s.mem.items()}
        p.pc = list(s.pc)
        p.stack = list(s.stack)
        p.counts = dict(s.counts)
        p.may_panic = s.may_panic
        p.nfid = s.nfid
        p.events = list(s.events)
        p.rng = list(s.rng)
        return p


def wrap_int(v, ty):
    b = INT_BITS.get(ty)
    if b is None or is_sym(v) or isinstance(v, bool):
        return v
    v = int(v)
    if ty[0] == 'u' or ty == 'char':
        return v % (1 << b)
    v = v % (1 << b)
    return v - (1 << b) if v >= (1 << (b - 1)) else v


def ulps_eq_f32(x, y, eps, ulps):
    """approx::UlpsEq for f32"""
    x, y, eps = f32r(float(x)), f32r(float(y)), float(eps)
    if x != x or y != y:
        return False
    if abs(f32r(x - y)) <= eps:
        return True
    if (math.copysign(1.0, x) < 0) != (math.copysign(1.0, y) < 0):
        return False
    ix = struct.unpack('<i', struct.pack('<f', x))[0]
    iy = struct.unpack('<i', struct.pack('<f', y))[0]
    return abs(ix - iy) <= int(ulps)


def f32r(x):
    try:
        return struct.unpack('f', struct.pack('f', x))[0]
    except OverflowError:
        return math.copysign(math.inf, x)


def fdiv(a, b):
    try:
        return a / b
    except ZeroDivisionError:
        if a == 0 or a != a:
            return math.nan
        return math.copysign(math.inf, a) * math.copysign(1.0, b)


def ulps_eq_f64(a, b, eps, max_ulps):
    if abs(a - b) <= eps:
        return True
    if a != a or b != b:
        return False
    if math.copysign(1.0, a) != math.copysign(1.0, b):
        return False
    ia = struct.unpack('<q', struct.pack('<d', a))[0]
    ib = struct.unpack('<q', struct.pack('<d', b))[0]
    return abs(ia - ib) <= max_ulps


def relative_eq_f64(a, b, eps, maxrel):
    if a == b:
        return True
    if math.isinf(a) or math.isinf(b):
        return False
    d = abs(a - b)
    if d <= eps:
        return True
    la = max(abs(a), abs(b))
    return d <= la * maxrel


class Machine:
    def __init__(s, fns, mode='REAL', feasible=None, fuel=400000, max_forks=512, log=None):
        s.fns = fns
        s.mode = mode              # 'REAL' (symbolic, exact arithmetic) | 'CONC' (IEEE doubles)
        s.feasible_cb = feasible
        s.fuel = fuel
        s.max_forks = max_forks
        s.stats = {'stmts': 0, 'blocks': 0, 'forks': 0, 'pruned': 0, 'paths': 0, 'transitions': 0}
        s.obligations = []
        s.covers = {}
        s.returned = []
        s.panicked = []
        s.opaque_used = set()
        s.shims_used = set()
        s.free_bool_atoms = True
        s.npaths = 0

    # ------------------------------------------------------------------ helpers
    def fl(s, c):
        """A float literal in the current mode."""
        if s.mode in ('CONC', 'FP'):
            return float(c)
        return Fraction(c)

    def feasible(s, p):
        if s.feasible_cb is None:
            return True
        return s.feasible_cb(p.pc)

    def lty(s, p, loc):
        return p.stack[-1].fn.locals[loc]

    def obj(s, p, loc):
        return (p.stack[-1].fid, loc)

    def ensure(s, p, o, ty):
        if o not in p.mem:
            p.mem[o] = [UNINIT] * nleaves(ty)

    # ------------------------------------------------------------------ places
    def resolve(s, p, loc, proj):
        o = s.obj(p, loc)
        ty = s.lty(p, loc)
        off = 0
        slen = None
        i = 0
        n = len(proj)
        while i < n:
            pr = proj[i]
            k = pr[0]
            if k == 'deref':
                s.ensure(p, o, ty)
                ptr = p.mem[o][off]
                if not isinstance(ptr, Ptr):
                    raise MirError('deref of non-pointer %r (type %s)' % (ptr, ty))
                ty = pointee(ty)
                slen = p.mem[o][off + 1] if is_unsized(ty) else None
                o, off = ptr.obj, ptr.off
            elif k == 'field':
                if ty.startswith('DOWN:'):
                    base = ty[5:]
                    name, args = ty_split_adt(base)
                    off += 1
                    if pr[1] != 0:
                        raise MirError('variant field %d of %s' % (pr[1], base))
                    ty = pr[2]
                else:
                    off += field_off(ty, pr[1])
                    ty = pr[2]
            elif k == 'down':
                ty = 'DOWN:' + ty
            elif k == 'cidx':
                et, cnt = array_parts(ty)
                idx = pr[1]
                if pr[2]:
                    ln = cnt if cnt is not None else slen
                    idx = int(ln) - idx
                off += idx * nleaves(et)
                ty = et
            elif k == 'idx':
                iv = p.mem[s.obj(p, pr[1])][0]
                et, cnt = array_parts(ty)
                if is_sym(iv):
                    ln = cnt if cnt is not None else slen
                    raise Concretize(iv, int(ln))
                off += int(iv) * nleaves(et)
                ty = et
            elif k == 'sub':
                et, cnt = array_parts(ty)
                ln = cnt if cnt is not None else slen
                fr, to = pr[1], pr[2]
                if pr[3]:
                    to = int(ln) - to
                off += fr * nleaves(et)
                if cnt is None:
                    # a subslice of a slice is a slice: unsized, its length travels as pointer metadata
                    ty = '[%s]' % et
                    slen = to - fr
                else:
                    ty = '[%s; %d]' % (et, to - fr)
            else:
                raise MirError('projection ' + repr(pr))
            i += 1
        s.last_slen = slen
        return o, off, ty

    def read_place(s, p, loc, proj):
        o, off, ty = s.resolve(p, loc, proj)
        n = nleaves(ty)
        if o not in p.mem:
            if n == 0:
                return [], ty
            raise MirError('read of unallocated %r' % (o,))
        return p.mem[o][off:off + n], ty

    def write_place(s, p, loc, proj, vals):
        o, off, ty = s.resolve(p, loc, proj)
        if o not in p.mem:
            s.ensure(p, o, s.lty(p, loc) if o[0] == p.stack[-1].fid else ty)
        p.mem[o][off:off + len(vals)] = vals

    # ------------------------------------------------------------------ constants
    def const_struct(s, c):
        """Path::<..> {{ f: v, .. }}  |  Path::<..>(v, ..)  ->  concatenated leaves, or None if c is not of that shape."""
        i = 0
        n = len(c)
        while i < n:
            m = re.match(r'[A-Za-z_][\w]*', c[i:])
            if not m:
                break
            i += m.end()
            if c[i:i + 3] == '::<':
                i = mir.match_paren(c, i + 2) + 1
            if c[i:i + 2] == '::':
                i += 2
                continue
            break
        if i == 0 or i >= n:
            return None
        rest = c[i:].strip()
        if rest.startswith('{{') and rest.endswith('}}'):
            inner = rest[2:-2].strip()
            out = []
            for x in mir.split_top(inner):
                out += s.const(x.split(':', 1)[1].strip())
            return out
        if rest.startswith('(') and rest.endswith(')') and mir.match_paren(rest, 0) == len(rest) - 1:
            out = []
            for x in mir.split_top(rest[1:-1]):
                out += s.const(x)
            return out
        return None

    def const(s, c, want=None):
        c = c.strip()
        m = re.match(r'^(-?[\d.]+(?:[eE][+-]?\d+)?)(f64|f32)$', c)
        if m:
            v = float(m.group(1))
            return [s.fl(f32r(v) if m.group(2) == 'f32' else v)]      # an f32 literal denotes the nearest f32
        m = re.match(r'^(-?\d+)_(\w+)$', c)
        if m:
            return [int(m.group(1))]
        if c in ('true', 'false'):
            return [c == 'true']
        m = re.match(r'^(?:std::|core::)?(\w+)::(MIN|MAX)$', c)
        if m and m.group(1) in INT_BITS:
            b = INT_BITS[m.group(1)]
            if m.group(1)[0] == 'u':
                return [0 if m.group(2) == 'MIN' else (1 << b) - 1]
            return [-(1 << (b - 1)) if m.group(2) == 'MIN' else (1 << (b - 1)) - 1]
        if c.startswith('"'):
            body = c[1:c.rindex('"')]
            return [Str(body), len(body)]
        m = re.match(r'^(?:cgmath::)?(?:R32|r32::R32|R|Rad|Deg|Rad::<.*?>|Deg::<.*?>|Wrapping::<.*?>)\((.*)\)$', c)
        if m:
            return s.const(m.group(1))
        m = re.match(r'^(?:std::option::)?Option::<.*>::Some\((.*)\)$', c)
        if m:
            return [1] + s.const(m.group(1))
        if re.match(r'^(?:std::option::)?Option::<.*>::None$', c):
            inner = re.match(r'^(?:std::option::)?Option::<(.*)>::None$', c).group(1)
            return [0] + [UNINIT] * nleaves(inner)
        m = re.match(r'^(?:std::cmp::Ordering::|Ordering::)?(Less|Equal|Greater)$', c)
        if m:
            return [{'Less': -1, 'Equal': 0, 'Greater': 1}[m.group(1)]]
        if c == '<uninit>':
            return None
        if c == '()' or c.startswith('PhantomData') or c.startswith('ZeroSized') or c.startswith('std::marker::PhantomData'):
            return []
        m = re.match(r'^([+-])?[Ii]nf_?(f64|f32)$', c)
        if m:
            if s.mode in ('CONC', 'FP'):
                return [-math.inf if m.group(1) == '-' else math.inf]
            t = app('CONST_infinity', 'Real')
            return [neg(t) if m.group(1) == '-' else t]
        if re.match(r'^[+-]?NaN_?(f64|f32)$', c):
            return [math.nan if s.mode in ('CONC', 'FP') else app('CONST_nan', 'Real')]
        if c in ('f64::NAN', 'NaNf64', 'NaN_f64'):
            return [math.nan if s.mode == 'CONC' else app('NAN', 'Real')]
        if c == '[]':
            return []
        r = s.const_struct(c)
        if r is not None:
            return r
        if re.match(r'^[\w:]+::promoted\[\d+\]$', c):
            if c in s.fns:
                return s.eval_promoted(c)
            tail = '::'.join(c.split('::')[-2:])
            for k in s.fns:
                if k == tail or k.endswith('::' + tail):
                    return s.eval_promoted(k)
        m = re.match(r'^\{0x([0-9a-f]+) as (.*)\}$', c)
        if m:
            return [Ptr(('dangling', int(m.group(1), 16)), 0)]
        if c.startswith('{closure@') or re.match(r'^[\w:<> ,]+::\{closure#\d+\}$', c):
            return []
        m = re.match(r'^\[(.*)\]$', c)
        if m:
            out = []
            for x in mir.split_top(m.group(1)):
                out += s.const(x)
            return out
        m = re.match(r'^\((.*)\)$', c)
        if m:
            out = []
            for x in mir.split_top(m.group(1)):
                out += s.const(x)
            return out
        m = re.match(r'^<(.*) as std::mem::SizedTypeProperties>::(SIZE|IS_ZST)$', c)
        if m:
            # only the zero-ness of the size matters to the code that reads it (slice iterators); the leaf count stands
            # for it, and the differential validation of the lowering decides whether the run is trusted
            n = nleaves(norm_ty(m.group(1)))
            return [n * 8] if m.group(2) == 'SIZE' else [n == 0]
        raise MirError('const? ' + c)

    def eval_promoted(s, name):
        """Run a promoted constant body (straight-line) in a frame of the current path."""
        p = s.cur
        key = ('promoted', name)
        if key in p.mem:
            return list(p.mem[key])
        fn = s.fns[name]
        fid = p.nfid
        p.nfid += 1
        saved = p.stack
        p.stack = p.stack + [Frame(fn, fid, None, None)]
        bb = 0
        for _ in range(1000):
            stmts, term = s.get_parsed(fn, bb)
            for st in stmts:
                s.stmt(p, st)
            if term[0] == 'return':
                break
            if term[0] != 'goto':
                raise MirError('promoted constant with control flow: ' + name)
            bb = term[1]
        ret = list(p.mem.get((fid, 0), []))
        p.stack = saved
        p.mem[key] = ret
        return list(ret)

    def operand(s, p, o):
        s.cur = p
        if o[0] == 'place':
            return s.read_place(p, o[1], o[2])[0]
        v = s.const(o[1])
        return v

    def operand_ty(s, p, o):
        if o[0] == 'place':
            return s.resolve(p, o[1], o[2])[2]
        c = o[1]
        m = re.search(r'_(\w+)$', c)
        if m and m.group(1) in INT_BITS:
            return m.group(1)
        if c.endswith('f64'):
            return 'f64'
        if c.endswith('f32'):
            return 'f32'
        if c in ('true', 'false'):
            return 'bool'
        return None

    # ------------------------------------------------------------------ scalar ops
    def rarg(s, x):
        """argument of an opaque application: canonical modulo ring identities in REAL mode (axioms.canon)"""
        x = to_real(x)
        if s.mode == 'REAL' and getattr(s, 'canon_args', True):
            from .axioms import canon
            return canon(x)
        return x

    def float_bin(s, op, a, b, ty):
        if s.mode == 'CONC' and not is_sym(a) and not is_sym(b):
            a = float(a)
            b = float(b)
            if op == 'Add':
                r = a + b
            elif op == 'Sub':
                r = a - b
            elif op == 'Mul':
                r = a * b
            elif op == 'Div':
                r = fdiv(a, b)
            elif op == 'Rem':
                r = math.fmod(a, b) if b != 0 and not math.isinf(a) else math.nan
            else:
                return {'Eq': a == b, 'Ne': a != b, 'Lt': a < b, 'Le': a <= b, 'Gt': a > b, 'Ge': a >= b}[op]
            return f32r(r) if ty == 'f32' else r
        if s.mode == 'FP':
            # IEEE semantics, bit-precise (only add/sub/compare are within the solvers' reach: DESIGN 1.1(d))
            fs = 'F64' if ty == 'f64' else 'F32'
            if not is_sym(a) and not is_sym(b):
                a = float(a)
                b = float(b)
                if op in ('Add', 'Sub', 'Mul', 'Div'):
                    r = {'Add': a + b, 'Sub': a - b, 'Mul': a * b}[op] if op != 'Div' else fdiv(a, b)
                    return f32r(r) if ty == 'f32' else r
                if op == 'Rem':
                    return math.fmod(a, b)
                return {'Eq': a == b, 'Ne': a != b, 'Lt': a < b, 'Le': a <= b, 'Gt': a > b, 'Ge': a >= b}[op]
            if op in ('Add', 'Sub', 'Mul', 'Div'):
                return T.mk(fs, 'fp.' + op.lower(), a, b)
            if op == 'Rem':
                s.opaque_used.add('fmod')
                return app('fpfmod', fs, a, b)
            if op == 'Ne':
                return bnot(T.mk('Bool', 'fp.eq', a, b))
            return T.mk('Bool', {'Eq': 'fp.eq', 'Lt': 'fp.lt', 'Le': 'fp.leq', 'Gt': 'fp.gt', 'Ge': 'fp.geq'}[op], a, b)
        if s.mode == 'UF' and op in ('Add', 'Sub', 'Mul', 'Div') and (is_sym(a) or is_sym(b)):
            # no algebraic law at all: equal terms mean the same operations on the same operands in the same order
            # (IEEE add and mul are commutative, so their operands are put in a canonical order)
            x, y = to_real(a), to_real(b)
            if op in ('Add', 'Mul') and repr(x) > repr(y):
                x, y = y, x
            return app('f' + op.lower() + '_' + ty, 'Real', x, y)
        if s.mode == 'ERR' and op in ('Add', 'Sub', 'Mul', 'Div') and (is_sym(a) or is_sym(b)):
            # rounding-error model: exact real result times (1 + delta), |delta| <= unit roundoff (normal range)
            from .terms import fresh
            d = fresh('delta_' + ty)
            u = Fraction(1, 2 ** 53) if ty == 'f64' else Fraction(1, 2 ** 24)
            s.cur.pc.append(band(cmp('<=', neg(u), d), cmp('<=', d, u)))
            s.stats['roundings'] = s.stats.get('roundings', 0) + 1
            r = arith('*', arith({'Add': '+', 'Sub': '-', 'Mul': '*', 'Div': '/'}[op], a, b), arith('+', 1, d))
            # the (1 + delta) model is valid only while the rounded value is a normal finite float: every intermediate
            # must stay below the overflow threshold and (being non-zero here) above the smallest normal number.
            # These conditions are part of every later vrel_err obligation (a spurious overflow of an intermediate
            # is a counterexample, replayed natively like any other).
            big = Fraction(2 ** 1024 - 2 ** 971) if ty == 'f64' else Fraction(2 ** 128 - 2 ** 104)
            tiny = Fraction(1, 2 ** 1022) if ty == 'f64' else Fraction(1, 2 ** 126)
            s.cur.rng.append(band(band(cmp('<=', r, big), cmp('<=', neg(big), r)), bor(cmp('>=', r, tiny), cmp('<=', r, neg(tiny)))))
            s.stats['range_conditions'] = s.stats.get('range_conditions', 0) + 1
            return r
        if op in ('Add', 'Sub', 'Mul', 'Div'):
            return arith({'Add': '+', 'Sub': '-', 'Mul': '*', 'Div': '/'}[op], a, b)
        if op == 'Rem':
            s.opaque_used.add('fmod')
            return app('fmod', 'Real', s.rarg(a), s.rarg(b))
        return cmp({'Eq': '=', 'Ne': '!=', 'Lt': '<', 'Le': '<=', 'Gt': '>', 'Ge': '>='}[op], a, b)

    def int_bin(s, op, a, b, ty):
        if a is UNINIT or b is UNINIT:
            return UNINIT
        sym = is_sym(a) or is_sym(b)
        if op in ('Eq', 'Ne', 'Lt', 'Le', 'Gt', 'Ge'):
            return cmp({'Eq': '=', 'Ne': '!=', 'Lt': '<', 'Le': '<=', 'Gt': '>', 'Ge': '>='}[op], a, b)
        if op.endswith('Unchecked'):
            op = op[:-9]
        if sym:
            if op in ('Add', 'Sub', 'Mul'):
                return arith({'Add': '+', 'Sub': '-', 'Mul': '*'}[op], a, b, 'Int')
            if op in ('Div', 'Rem'):
                s.opaque_used.add('i' + op.lower())
                return app('i%s_%s' % (op.lower(), ty), 'Int', a, b)
            raise MirError('symbolic int op ' + op)
        a = int(a)
        b = int(b)
        if op == 'Add':
            r = a + b
        elif op == 'Sub':
            r = a - b
        elif op == 'Mul':
            r = a * b
        elif op == 'Div':
            if b == 0:
                raise Panic('division by zero')
            r = abs(a) // abs(b) * (1 if (a >= 0) == (b >= 0) else -1)
        elif op == 'Rem':
            if b == 0:
                raise Panic('rem by zero')
            r = abs(a) % abs(b) * (1 if a >= 0 else -1)
        elif op == 'BitAnd':
            r = a & b
        elif op == 'BitOr':
            r = a | b
        elif op == 'BitXor':
            r = a ^ b
        elif op == 'Shl':
            r = a << b
        elif op == 'Shr':
            r = a >> b
        else:
            raise MirError('int op ' + op)
        return wrap_int(r, ty)

    def bool_bin(s, op, a, b):
        if op in ('BitAnd',):
            return band(a, b)
        if op in ('BitOr',):
            return bor(a, b)
        if op in ('BitXor', 'Ne'):
            if not is_sym(a) and not is_sym(b):
                return a != b
            return cmp('!=', a, b)
        if op == 'Eq':
            if not is_sym(a) and not is_sym(b):
                return a == b
            return cmp('=', a, b)
        raise MirError('bool op ' + op)

    # ------------------------------------------------------------------ rvalues
    def rvalue(s, p, rv, dst_ty):
        k = rv[0]
        if k == 'use':
            return s.operand(p, rv[1])
        if k == 'bin':
            op = rv[1]
            a = s.operand(p, rv[2])[0]
            b = s.operand(p, rv[3])[0]
            aty = s.operand_ty(p, rv[2]) or s.operand_ty(p, rv[3])
            if op == 'Offset':
                return [Ptr(a.obj, a.off + int(b) * nleaves(pointee(dst_ty)))]
            if isinstance(a, Ptr) or isinstance(b, Ptr):
                if op == 'Eq':
                    return [a == b]
                if op == 'Ne':
                    return [a != b]
                if op in ('Lt', 'Le', 'Gt', 'Ge') and isinstance(a, Ptr) and isinstance(b, Ptr) and a.obj == b.obj:
                    return [{'Lt': a.off < b.off, 'Le': a.off <= b.off, 'Gt': a.off > b.off, 'Ge': a.off >= b.off}[op]]
                raise MirError('pointer op ' + op)
            if aty in FLOATS:
                return [s.float_bin(op, a, b, aty)]
            if aty == 'bool' or isinstance(a, bool) or isinstance(b, bool) or (is_sym(a) and sort_of(a) == 'Bool'):
                return [s.bool_bin(op, a, b)]
            if op == 'Cmp':
                if is_sym(a) or is_sym(b):
                    raise MirError('symbolic Cmp')
                return [-1 if a < b else (1 if a > b else 0)]
            if op.endswith('WithOverflow'):
                r = s.int_bin(op[:-12], a, b, 'i128')
                w = wrap_int(r, aty)
                return [w, w != r]
            return [s.int_bin(op, a, b, aty if op in ('Eq', 'Ne', 'Lt', 'Le', 'Gt', 'Ge') else (dst_ty if dst_ty in INT_BITS else aty))]
        if k == 'un':
            a = s.operand(p, rv[2])
            if rv[1] == 'PtrMetadata':
                return [a[1]] if len(a) > 1 else []
            a = a[0]
            aty = s.operand_ty(p, rv[2])
            if rv[1] == 'Neg':
                if aty in FLOATS:
                    if s.mode in ('CONC', 'FP') and not is_sym(a):
                        return [-float(a)]
                    if s.mode == 'FP':
                        return [T.mk(sort_of(a), 'fp.neg', a)]
                    if s.mode == 'UF' and is_sym(a):
                        return [app('fneg_' + aty, 'Real', a)]
                    return [neg(a)]
                if is_sym(a):
                    return [neg(a, 'Int')]
                return [wrap_int(-int(a), aty)]
            if rv[1] == 'Not':
                if isinstance(a, bool) or (is_sym(a) and sort_of(a) == 'Bool'):
                    return [bnot(a)]
                return [wrap_int(~int(a), aty)]
        if k == 'ref':
            o, off, ty = s.resolve(p, rv[1], rv[2])
            if is_unsized(ty):
                # borrow of an unsized place (slice, or struct with a slice tail): carry the length metadata
                return [Ptr(o, off), s.last_slen]
            if o not in p.mem:
                s.ensure(p, o, s.lty(p, rv[1]))
            return [Ptr(o, off)]
        if k == 'discr':
            if not rv[2] and s.obj(p, rv[1]) not in p.mem:
                # discriminant of a local that was never written: MIR optimisations leave such reads behind when the value is
                # known and only feeds an `assume` (e.g. the Break(()) of an inlined Iterator::all); it carries no information
                return [UNINIT]
            v, ty = s.read_place(p, rv[1], rv[2])
            return [v[0]]
        if k == 'len':
            o, off, ty = s.resolve(p, rv[1], rv[2])
            et, cnt = array_parts(ty)
            if cnt is not None:
                return [cnt]
            return [s.read_ptr_with_len(p, rv[1], rv[2])[1]]
        if k == 'cast':
            kind, opnd, to = rv[1], rv[2], rv[3]
            v = s.operand(p, opnd)
            if kind == 'Transmute':
                if nleaves(to) != len(v):
                    raise MirError('transmute changes leaf count: %d -> %s' % (len(v), to))
                return v
            if kind == 'PtrToPtr':
                return v[:nleaves(to)]
            if kind == 'PointerCoercion':
                sty = s.operand_ty(p, opnd)
                if sty is not None and is_ptr(sty):
                    pt = pointee(sty)
                    if not is_unsized(pt) and is_unsized(pointee(to)):
                        return v + [mir.unsized_tail_len(pt, pointee(to))]
                if len(v) == nleaves(to):
                    return v
                raise MirError('pointer coercion %s -> %s' % (sty, to))
            if kind == 'IntToInt':
                x = v[0]
                if isinstance(x, bool):
                    x = int(x)
                return [wrap_int(x, to)]
            if kind == 'IntToFloat':
                x = v[0]
                if is_sym(x):
                    return [to_real(x)]
                if isinstance(x, bool):
                    x = int(x)
                return [float(x) if s.mode == 'CONC' else Fraction(x)]
            if kind == 'FloatToFloat':
                x = v[0]
                if not is_sym(x) and to == 'f32' and isinstance(x, (float, Fraction, int)) and not isinstance(x, bool):
                    return [s.fl(f32r(float(x)))]
                return [x]
            if kind == 'FloatToInt':
                x = v[0]
                if is_sym(x):
                    raise MirError('symbolic float->int cast')
                return [wrap_int(int(x), to)]
            raise MirError('cast ' + kind)
        if k == 'closure':
            parts = [s.operand(p, o) for o in rv[2]]
            sizes = [len(x) for x in parts]
            if mir.CLOSURES.get(rv[1]) != sizes:
                mir.CLOSURES[rv[1]] = sizes
                mir._nl.pop(rv[1], None)
            out = []
            for x in parts:
                out += x
            return out
        if k == 'agg':
            out = []
            for o in rv[1]:
                out += s.operand(p, o)
            return out
        if k == 'repeat':
            return s.operand(p, rv[1]) * rv[2]
        if k == 'variant':
            out = [rv[1]]
            for o in rv[2]:
                out += s.operand(p, o)
            n = nleaves(dst_ty)
            return out + [UNINIT] * (n - len(out))
        raise MirError('rvalue kind ' + k)

    def read_ptr_with_len(s, p, loc, proj):
        # place is `*ptr` with ptr a fat pointer: return [Ptr, len]
        if not proj or proj[-1][0] != 'deref':
            raise MirError('slice place without deref')
        v, ty = s.read_place(p, loc, proj[:-1])
        return v

    # ------------------------------------------------------------------ opaque scalar functions
    def opaque(s, p, fname, args):
        """Interpret calls that remain after inlining.  Returns leaves or None if unknown."""
        a = args
        if fname == 'r_const':
            return a[0]
        if fname == 'r32_const':
            # R32's literal constructor: `c as f32` -- a concrete constant rounds to f32, a symbolic value is kept (REAL mode
            # models the f32 instantiation with exact arithmetic on symbolic values and f32 literals / tolerances)
            x = a[0][0]
            if is_sym(x):
                return a[0]
            return [s.fl(f32r(float(x)))]
        m = re.match(r'^(?:<R32 as (?:[\w:]*::)?NumCast>::from::<(\w+)>|(?:[\w:]*::)?cast::<(\w+), R32>)$', fname)
        if m:
            x = a[0][0]
            if is_sym(x):
                return [1, to_real(x)]
            if isinstance(x, bool):
                x = int(x)
            return [1, s.fl(f32r(float(x)))]
        m = re.match(r'^(?:<R as (?:[\w:]*::)?NumCast>::from::<(\w+)>|(?:[\w:]*::)?cast::<(\w+), R>)$', fname)
        if m:
            # R's NumCast::from (left un-inlined by the depth limit): Some(r_const(x as f64))
            x = a[0][0]
            if is_sym(x):
                return [1, to_real(x)]
            if isinstance(x, bool):
                x = int(x)
            return [1, s.fl(float(x)) if not isinstance(x, (float, Fraction)) or s.mode == 'CONC' else x]
        m = re.match(r'^<(R32|R|f64|f32) as ([\w:]+)>::(\w+)(?:::<(.*)>)?$', fname)
        if m:
            recv, trait, f = m.group(1), m.group(2).split('::')[-1], m.group(3)
            if recv == 'R32':
                recv = 'f32'
            r = s.scalar_method(p, recv, trait, f, a)
            if recv == 'f32' and s.mode == 'CONC' and isinstance(r, list):
                r = [f32r(v) if isinstance(v, float) else v for v in r]
            return r
        m = re.match(r'^<(\w+) as std::ops::(Add|Sub|Mul|Div|Rem|Neg)(?:<\w+>)?>::\w+$', fname)
        if m and (m.group(1) in INT_BITS or m.group(1) in FLOATS):
            ty, op = m.group(1), m.group(2)
            if op == 'Neg':
                x = a[0][0]
                if ty in FLOATS:
                    return [-float(x)] if (s.mode == 'CONC' and not is_sym(x)) else [neg(x)]
                return [neg(x, 'Int')] if is_sym(x) else [wrap_int(-int(x), ty)]
            if ty in FLOATS:
                return [s.float_bin(op, a[0][0], a[1][0], ty)]
            return [s.int_bin(op, a[0][0], a[1][0], ty)]
        m = re.match(r'^(?:std::|core::)?(f64|f32)::<impl (f64|f32)>::(\w+)$', fname)
        if m:
            return s.scalar_method(p, m.group(1), 'Float', m.group(3), a)
        return None

    def deref_arg(s, p, leaves):
        x = leaves[0]
        if isinstance(x, Ptr):
            return p.mem[x.obj][x.off]
        return x

    def scalar_method(s, p, recv, trait, f, a):
        conc = s.mode == 'CONC'
        s.opaque_used.add(f)
        if trait in ('AbsDiffEq', 'RelativeEq', 'UlpsEq'):
            if f == 'default_epsilon' or f == 'default_max_relative':
                return [s.fl(2.0 ** -52)] if recv != 'f32' else [s.fl(2.0 ** -23)]
            if f == 'default_max_ulps':
                return [4]
            x = s.deref_arg(p, a[0])
            y = s.deref_arg(p, a[1])
            if f == 'abs_diff_eq':
                e = a[2][0]
                if conc:
                    return [abs(x - y) <= e]
                d = arith('-', x, y)
                return [band(cmp('<=', d, e), cmp('<=', neg(d), e))]
            if f == 'abs_diff_ne':
                e = a[2][0]
                if conc:
                    return [not (abs(x - y) <= e)]
                d = arith('-', x, y)
                return [bnot(band(cmp('<=', d, e), cmp('<=', neg(d), e)))]
            if f == 'ulps_eq':
                if conc:
                    return [ulps_eq_f32(x, y, a[2][0], a[3][0]) if recv == 'f32' else ulps_eq_f64(x, y, a[2][0], a[3][0])]
                if getattr(s, 'concrete_opaque', False) and not any(is_sym(z) for z in (x, y, a[2][0], a[3][0])):
                    return [ulps_eq_f64(float(x), float(y), float(a[2][0]), int(a[3][0]))]
                return [app('ulps_eq', 'Bool', to_real(x), to_real(y), to_real(a[2][0]), a[3][0])]
            if f == 'relative_eq':
                if conc:
                    return [relative_eq_f64(x, y, a[2][0], a[3][0])]
                if getattr(s, 'concrete_opaque', False) and not any(is_sym(z) for z in (x, y, a[2][0], a[3][0])):
                    return [relative_eq_f64(float(x), float(y), float(a[2][0]), float(a[3][0]))]
                return [app('relative_eq', 'Bool', to_real(x), to_real(y), to_real(a[2][0]), to_real(a[3][0]))]
            return None
        if trait == 'PartialOrd' and f == 'partial_cmp':
            x = s.deref_arg(p, a[0])
            y = s.deref_arg(p, a[1])
            if not is_sym(x) and not is_sym(y):
                if x != x or y != y:
                    return [0, UNINIT]
                return [1, -1 if x < y else (1 if x > y else 0)]
            return ('fork', [(cmp('<', x, y), [1, -1]), (cmp('=', x, y), [1, 0]), (cmp('>', x, y), [1, 1])])
        if trait == 'PartialOrd' and f in ('lt', 'le', 'gt', 'ge'):
            x = s.deref_arg(p, a[0])
            y = s.deref_arg(p, a[1])
            op = {'lt': '<', 'le': '<=', 'gt': '>', 'ge': '>='}[f]
            if not is_sym(x) and not is_sym(y):
                return [{'<': x < y, '<=': x <= y, '>': x > y, '>=': x >= y}[op]]
            return [cmp(op, x, y)]
        if trait == 'PartialEq' and f in ('eq', 'ne'):
            x = s.deref_arg(p, a[0])
            y = s.deref_arg(p, a[1])
            if not is_sym(x) and not is_sym(y):
                return [(x == y) if f == 'eq' else (x != y)]
            return [cmp('=' if f == 'eq' else '!=', x, y)]
        if trait == 'Rem' or f == 'rem':
            x, y = a[0][0], a[1][0]
            if conc:
                return [math.fmod(x, y) if y != 0 and not math.isinf(x) else math.nan]
            return [app('fmod', 'Real', s.rarg(x), s.rarg(y))]
        if trait == 'ToPrimitive':
            x = s.deref_arg(p, a[0])
            if f == 'to_f64':
                return [1, x]
            return None
        x = a[0][0] if a else None
        if f in ('sqrt', 'sin', 'cos', 'tan', 'asin', 'acos', 'atan', 'exp', 'ln'):
            if conc:
                try:
                    return [getattr(math, {'ln': 'log'}.get(f, f))(x)]
                except ValueError:
                    return [math.nan]
            return [app(f, 'Real', s.rarg(x))]
        if f == 'sin_cos':
            if conc:
                return [math.sin(x), math.cos(x)]
            return [app('sin', 'Real', s.rarg(x)), app('cos', 'Real', s.rarg(x))]
        if f == 'atan2':
            y = a[1][0]
            if conc:
                return [math.atan2(x, y)]
            return [app('atan2', 'Real', s.rarg(x), s.rarg(y))]
        if f == 'abs':
            if conc:
                return [abs(x)]
            if not is_sym(x):
                return [abs(x)]
            return [ite(cmp('>=', x, 0), x, neg(x))]
        if f == 'copysign':
            y = a[1][0]
            if conc:
                return [math.copysign(x, y)]
            if not is_sym(x) and not is_sym(y):
                return [abs(x) if y >= 0 else -abs(x)]
            ax = ite(cmp('>=', x, 0), x, neg(x)) if is_sym(x) else abs(x)
            # (over the reals a zero `y` counts as +0: the sign of a zero is a floating-point notion)
            return [ite(cmp('>=', y, 0), ax, neg(ax))]
        if f == 'recip':
            if conc:
                return [fdiv(1.0, x)]
            return [arith('/', 1, x)]
        if f in ('min', 'max'):
            y = a[1][0]
            if conc:
                return [min(x, y) if f == 'min' else max(x, y)]
            if not is_sym(x) and not is_sym(y):
                return [min(x, y) if f == 'min' else max(x, y)]
            c = cmp('<=' if f == 'min' else '>=', x, y)
            return [ite(c, x, y)]
        if f in ('is_finite', 'is_nan', 'is_infinite', 'is_normal', 'is_sign_negative', 'is_sign_positive'):
            if conc:
                return [{'is_finite': math.isfinite(x), 'is_nan': x != x, 'is_infinite': math.isinf(x), 'is_normal': x != 0 and math.isfinite(x) and abs(x) >= 2.2250738585072014e-308,
                         'is_sign_negative': math.copysign(1.0, x) < 0, 'is_sign_positive': math.copysign(1.0, x) > 0}[f]]
            return [app(f, 'Bool', to_real(x))]
        if f in ('epsilon',):
            return [s.fl(2.0 ** -52)] if recv != 'f32' else [s.fl(2.0 ** -23)]
        if f in ('infinity', 'neg_infinity', 'nan', 'max_value', 'min_value', 'min_positive_value', 'neg_zero'):
            if conc:
                return [{'infinity': math.inf, 'neg_infinity': -math.inf, 'nan': math.nan, 'max_value': 1.7976931348623157e308, 'min_value': -1.7976931348623157e308,
                         'min_positive_value': 2.2250738585072014e-308, 'neg_zero': -0.0}[f]]
            if f == 'neg_zero':
                return [Fraction(0)]
            return [app('CONST_' + f, 'Real')]
        if f in ('floor', 'ceil', 'round', 'trunc', 'fract', 'signum', 'mul_add', 'powi', 'powf', 'hypot', 'cbrt', 'exp2', 'log2', 'log10', 'sinh', 'cosh', 'tanh'):
            if conc:
                if f == 'floor':
                    return [float(math.floor(x))]
                if f == 'ceil':
                    return [float(math.ceil(x))]
                if f == 'trunc':
                    return [float(math.trunc(x))]
                if f == 'signum':
                    return [math.copysign(1.0, x)]
                if f == 'mul_add':
                    return [x * a[1][0] + a[2][0]]
                if f == 'powi':
                    return [x ** int(a[1][0])]
                if f == 'hypot':
                    return [math.hypot(x, a[1][0])]
                return None
            return [app(f, 'Real', *[to_real(z[0]) for z in a])]
        return None

    # ------------------------------------------------------------------ markers and intrinsics
    def count(s, p, mid):
        k = p.counts.get(mid, 0)
        p.counts[mid] = k + 1
        return '%s#%d' % (mid, k) if k or True else mid

    def marker(s, p, fname, a):
        base = fname.split('::<')[0]
        conc = s.mode == 'CONC'
        lemma = None
        for fr in p.stack:
            if fr.apply:
                lemma = fr.apply
        if lemma and not conc and base in ('vassume', 'vassume_eq', 'vassert', 'vassert_eq', 'vlemma', 'vlemma_eq', 'vcover', 'vmust_not_reach'):
            # Applying a lemma function to the caller's terms: its assumptions are proof obligations
            # here, its conclusions (proved once for all reals in the lemma's own harness run) are assumed.
            if base == 'vassume':
                c = a[0][0]
                oid = s.count(p, 'apply:%s:pre' % lemma)
                s.obligations.append({'kind': 'bool', 'id': oid, 'leaf': 0, 'pc': tuple(p.pc), 'cond': c, 'path': p.pid, 'lemma': True})
                if c is not True:
                    p.pc.append(c)
                return []
            if base == 'vassume_eq':
                oid = s.count(p, 'apply:%s:pre' % lemma)
                for i, (x, y) in enumerate(zip(a[0], a[1])):
                    s.obligations.append({'kind': 'eq', 'id': oid, 'leaf': i, 'pc': tuple(p.pc), 'lhs': x, 'rhs': y, 'path': p.pid, 'lemma': True})
                for x, y in zip(a[0], a[1]):
                    c = cmp('=', x, y)
                    if c is not True:
                        p.pc.append(c)
                return []
            if base in ('vassert', 'vlemma'):
                c = a[1][0]
                if c is not True:
                    p.pc.append(c)
                return []
            if base in ('vassert_eq', 'vlemma_eq'):
                for x, y in zip(a[1], a[2]):
                    c = cmp('=', x, y)
                    if c is not True:
                        p.pc.append(c)
                return []
            return []
        if base == 'vassume':
            c = a[0][0]
            if conc:
                p.events.append(('ASSUME', bool(c)))
                return []
            if c is False:
                raise Panic('assume-false')
            if c is not True:
                p.pc.append(c)
                if not s.feasible(p):
                    raise Panic('assume-infeasible')
            return []
        if base == 'vassume_eq':
            if conc:
                p.events.append(('ASSUMEEQ', list(a[0]), list(a[1])))
                return []
            for x, y in zip(a[0], a[1]):
                c = cmp('=', x, y)
                if c is False:
                    raise Panic('assume-false')
                if c is not True:
                    p.pc.append(c)
            return []
        if base in ('vassert', 'vlemma'):
            mid = a[0][0].s.replace(' ', '_')
            c = a[1][0]
            if conc:
                p.events.append(('ASSERT', mid, bool(c)))
                return []
            oid = s.count(p, mid)
            s.obligations.append({'kind': 'bool', 'id': oid, 'leaf': 0, 'pc': tuple(p.pc), 'cond': c, 'path': p.pid, 'lemma': base == 'vlemma'})
            if base == 'vlemma' and c is not True:
                p.pc.append(c)
            return []
        if base in ('vassert_eq', 'vlemma_eq'):
            mid = a[0][0].s.replace(' ', '_')
            if conc:
                p.events.append(('ASSERTEQ', mid, list(a[1]), list(a[2])))
                return []
            oid = s.count(p, mid)
            if len(a[1]) != len(a[2]):
                raise MirError('vassert_eq leaf count mismatch')
            for i, (x, y) in enumerate(zip(a[1], a[2])):
                s.obligations.append({'kind': 'eq', 'id': oid, 'leaf': i, 'pc': tuple(p.pc), 'lhs': x, 'rhs': y, 'path': p.pid, 'lemma': base == 'vlemma_eq'})
                if base == 'vlemma_eq':
                    c = cmp('=', x, y)
                    if c is not True:
                        p.pc.append(c)
            return []
        if base == 'vcover':
            mid = a[0][0].s.replace(' ', '_')
            if conc:
                p.events.append(('COVER', mid))
                return []
            s.covers.setdefault(mid, []).append(tuple(p.pc))
            return []
        if base == 'vout':
            mid = a[0][0].s.replace(' ', '_')
            p.events.append(('OUT', mid, list(a[1])))
            return []
        if base == 'vmust_not_reach':
            mid = a[0][0].s.replace(' ', '_')
            if conc:
                p.events.append(('ASSERT', mid, False))
                return []
            oid = s.count(p, mid)
            s.obligations.append({'kind': 'unreach', 'id': oid, 'leaf': 0, 'pc': tuple(p.pc), 'path': p.pid, 'lemma': False})
            return []
        if base == 'vrel_err':
            mid = a[0][0].s.replace(' ', '_')
            got, want, ulps = a[1][0], a[2][0], a[3][0]
            ty = fname.split('::<')[1].rstrip('>') if '::<' in fname else 'f64'
            eps = (2.0 ** -52) if ty == 'f64' else (2.0 ** -23)
            if conc:
                p.events.append(('ASSERT', mid, abs(got - want) <= ulps * eps * abs(want)))
                return []
            oid = s.count(p, mid)
            bound = arith('*', arith('*', Fraction(ulps), Fraction(eps)), ite(cmp('>=', want, 0), want, neg(want)))
            dlt = arith('-', got, want)
            cond = band(cmp('<=', dlt, bound), cmp('<=', neg(bound), dlt))
            for rc in p.rng:
                cond = band(rc, cond)
            s.obligations.append({'kind': 'bool', 'id': oid, 'leaf': 0, 'pc': tuple(p.pc), 'cond': cond, 'path': p.pid, 'lemma': False})
            return []
        if base == 'vmay_panic':
            p.may_panic = True
            return []
        return None

    def intrinsic(s, p, fname, a, argops):
        m = re.match(r'^(?:std::intrinsics::|core::intrinsics::)?copy(?:_nonoverlapping)?::<(.*)>$', fname)
        if m:
            n = nleaves(m.group(1)) * int(a[2][0])
            src, dst = a[0][0], a[1][0]
            vals = p.mem[src.obj][src.off:src.off + n]
            p.mem[dst.obj][dst.off:dst.off + n] = vals
            return []
        m = re.match(r'^(?:std::intrinsics::|core::intrinsics::)?ptr_offset_from(?:_unsigned)?::<(.*)>$', fname)
        if m:
            if a[0][0].obj != a[1][0].obj:
                raise MirError('ptr_offset_from across objects')
            return [(a[0][0].off - a[1][0].off) // max(1, nleaves(m.group(1)))]
        m = re.match(r'^(?:std::|core::)?mem::swap::<(.*)>$', fname)
        if m:
            n = nleaves(m.group(1))
            x, y = a[0][0], a[1][0]
            vx = p.mem[x.obj][x.off:x.off + n]
            vy = p.mem[y.obj][y.off:y.off + n]
            p.mem[x.obj][x.off:x.off + n] = vy
            p.mem[y.obj][y.off:y.off + n] = vx
            return []
        m = re.match(r'^(?:(?:std::|core::)?(?:ptr::swap|mem::swap|intrinsics::typed_swap_nonoverlapping)|typed_swap_nonoverlapping)::<(.*)>$', fname)
        if m:
            n = nleaves(m.group(1))
            x, y = a[0][0], a[1][0]
            vx = p.mem[x.obj][x.off:x.off + n]
            vy = p.mem[y.obj][y.off:y.off + n]
            p.mem[x.obj][x.off:x.off + n] = vy
            p.mem[y.obj][y.off:y.off + n] = vx
            return []
        if re.match(r'^(?:std::|core::)?(?:intrinsics|hint)::(?:assert_inhabited|assert_zero_valid|assume|cold_path)', fname):
            return []
        if re.match(r'^(?:std::|core::)?intrinsics::(?:un)?likely', fname):
            return a[0]
        return None

    # ------------------------------------------------------------------ running
    def start(s, fname, init_leaves):
        """init_leaves: list (one per parameter) of leaf lists."""
        fn = s.fns[fname]
        p = Path()
        p.stack = [Frame(fn, 0, None, None)]
        p.nfid = 1
        for loc, vals in zip(fn.params, init_leaves):
            p.mem[(0, loc)] = list(vals)
        return p

    def run(s, fname, init_leaves, init_pc=None):
        p = s.start(fname, init_leaves)
        if init_pc:
            p.pc = list(init_pc)
        p.pid = 0
        s.npaths = 1
        work = [(p, 0, 0)]
        while work:
            p, bb, idx = work.pop()
            try:
                s.run_path(p, bb, idx, work)
            except Panic as e:
                s.end_panic(p, str(e))
        s.stats['paths'] = s.npaths

    def end_panic(s, p, why):
        if why.startswith('assume-'):
            return
        s.panicked.append((p, why))
        if s.mode == 'CONC':
            p.events.append(('PANIC',))
            return
        if p.may_panic:
            s.covers.setdefault('<expected panic reached>', []).append(tuple(p.pc))
        if not p.may_panic:
            s.obligations.append({'kind': 'nopanic', 'id': 'no-panic(%s)#0' % re.sub(r'[^\w:]', '_', why[:40]), 'leaf': 0, 'pc': tuple(p.pc), 'path': p.pid, 'lemma': False})

    def fork(s, p, conds, work):
        """conds: list of (condition term, continuation (bb, idx), fixup or None).  Pushes feasible ones."""
        s.stats['forks'] += 1
        if s.stats['forks'] > s.max_forks:
            raise Fuel('fork bound exceeded')
        live = []
        pcset = set(x for x in p.pc if is_sym(x))
        # a branch condition that is literally (the negation of) a recorded atom needs no solver query
        forced = [c for c, _, _ in conds if is_sym(c) and c in pcset]
        for c, cont, fix in conds:
            if forced and c is not forced[0]:
                s.stats['pruned'] += 1
                continue
            if is_sym(c) and bnot(c) in pcset:
                s.stats['pruned'] += 1
                continue
            if forced:
                q = p.clone()
                if fix:
                    fix(q)
                live.append((q, cont))
                continue
            q = p.clone()
            if c is not True:
                q.pc.append(c)
            if fix:
                fix(q)
            # an opaque Boolean atom (ulps_eq(..), is_finite(..), a Bool input) not yet on the path can take either value
            atom = node(c) if is_sym(c) else None
            if atom is not None and atom[0] == 'not' and is_sym(atom[1]):
                atom = node(atom[1])
            free_atom = atom is not None and atom[0] in ('app', 'var') and s.free_bool_atoms
            if free_atom and atom[0] == 'app':
                # not free when the contract decides it: equal or all-concrete arguments
                args = atom[2:]
                if (len(args) >= 2 and args[0] == args[1]) or not any(is_sym(z) for z in args[:2]):
                    free_atom = False
            if c is True or free_atom or s.feasible(q):
                live.append((q, cont))
            else:
                s.stats['pruned'] += 1
        for q, cont in live[1:]:
            q.pid = s.npaths
            s.npaths += 1
        if live:
            live[0][0].pid = p.pid
        for q, cont in reversed(live):
            work.append((q, cont[0], cont[1]))

    def get_parsed(s, fn, bb):
        r = fn.parsed.get(bb)
        if r is None:
            st = fn.blocks[bb]
            r = ([mir.parse_stmt(x) for x in st[:-1]], mir.parse_term(st[-1]))
            fn.parsed[bb] = r
        return r

    def run_path(s, p, bb, idx, work):
        while True:
            fr = p.stack[-1]
            fn = fr.fn
            if fn.doomed is None:
                fn.doomed = mir.find_doomed(fn)
            if bb in fn.doomed:
                raise Panic('bb%d of %s' % (bb, fn.name))
            s.stats['blocks'] += 1
            stmts, term = s.get_parsed(fn, bb)
            i = idx
            idx = 0
            try:
                while i < len(stmts):
                    s.stats['stmts'] += 1
                    if s.stats['stmts'] > s.fuel:
                        raise Fuel('statement fuel exceeded')
                    s.stmt(p, stmts[i])
                    i += 1
                nxt = s.terminator(p, term, bb, work)
            except Concretize as c:
                pos = (bb, i)
                conds = []
                for k in range(c.n):
                    conds.append((cmp('=', c.term, k), pos, (lambda q, t=c.term, k=k: s.replace_everywhere(q, t, k))))
                # out-of-range remainder: reaching it means an unchecked out-of-bounds access
                oob = bor(cmp('<', c.term, 0), cmp('>=', c.term, c.n))
                q = p.clone()
                q.pc.append(oob)
                if s.feasible(q):
                    s.end_panic(q, 'unchecked-oob')
                s.fork(p, conds, work)
                return
            s.stats['transitions'] += 1
            if nxt is None:
                return
            bb = nxt

    def replace_everywhere(s, p, term, k):
        isvar = node(term)[0] == 'var'
        env = {node(term)[1]: k} if isvar else None
        memo = {}
        for o, leaves in p.mem.items():
            for i, v in enumerate(leaves):
                if is_sym(v):
                    if v == term:
                        leaves[i] = k
                    elif isvar and sort_of(v) in ('Int', 'Bool'):
                        leaves[i] = substitute(v, env, memo)

    def stmt(s, p, st):
        s.cur = p
        k = st[0]
        if k == 'nop':
            return
        if k == 'assign':
            loc, proj, rv = st[1], st[2], st[3]
            if not proj:
                ty = s.lty(p, loc)
            else:
                ty = s.resolve(p, loc, proj)[2]
            vals = s.rvalue(p, rv, ty)
            o = s.obj(p, loc)
            if o not in p.mem:
                s.ensure(p, o, s.lty(p, loc))
            if vals is None:
                return
            s.write_place(p, loc, proj, vals)
            return
        if k == 'cno':
            d = s.operand(p, st[1])[0]
            sr = s.operand(p, st[2])[0]
            c = int(s.operand(p, st[3])[0])
            n = nleaves(pointee(s.operand_ty(p, st[1]))) * c
            p.mem[d.obj][d.off:d.off + n] = p.mem[sr.obj][sr.off:sr.off + n]
            return
        if k == 'setdiscr':
            o, off, ty = s.resolve(p, st[1], st[2])
            if o not in p.mem:
                s.ensure(p, o, s.lty(p, st[1]))
            p.mem[o][off] = st[3]
            return
        raise MirError('stmt ' + k)

    def terminator(s, p, t, bb, work):
        k = t[0]
        if k == 'goto':
            return t[1]
        if k == 'return':
            fr = p.stack[-1]
            if len(p.stack) == 1:
                if s.mode == 'CONC':
                    p.events.append(('END',))
                s.returned.append(p)
                return None
            ret = p.mem.get((fr.fid, 0), [])
            # free the callee's locals
            for o in [o for o in p.mem if o[0] == fr.fid]:
                del p.mem[o]
            p.stack = p.stack[:-1]
            if fr.dst is not None:
                o = s.obj(p, fr.dst[0])
                if o not in p.mem:
                    s.ensure(p, o, s.lty(p, fr.dst[0]))
                s.write_place(p, fr.dst[0], fr.dst[1], ret)
            return fr.ret_bb
        if k == 'switch':
            v = s.operand(p, t[1])[0]
            tg, other = t[2], t[3]
            if is_sym(v):
                if sort_of(v) == 'Bool':
                    if len(tg) == 1 and tg[0][0] == 0:
                        conds = [(bnot(v), (tg[0][1], 0), None), (v, (other, 0), None)]
                    else:
                        raise MirError('bool switch shape')
                else:
                    conds = []
                    rest = []
                    for kk, b in tg:
                        conds.append((cmp('=', v, kk), (b, 0), None))
                        rest.append(cmp('!=', v, kk))
                    if other is not None:
                        conds.append((conj(rest), (other, 0), None))
                s.fork(p, conds, work)
                return None
            if isinstance(v, bool):
                iv = int(v)
            elif isinstance(v, (int, Fraction)):
                iv = int(v)
            elif v == UNINIT:
                raise MirError('switch on uninit')
            else:
                raise MirError('switch on %r' % (v,))
            for kk, b in tg:
                if kk == iv or (iv < 0 and kk in (iv % 256, iv % (1 << 64), iv % (1 << 32), iv % (1 << 16), iv % (1 << 128))):
                    return b
            if other is None:
                raise MirError('switch without matching target')
            return other
        if k == 'assert':
            v = s.operand(p, t[1])[0]
            expected = t[2]
            if is_sym(v):
                good = v if expected else bnot(v)
                # failing side: recorded as a proof obligation (decided later, in parallel); no fork query needed
                q = Path()
                q.pc = p.pc + [bnot(good)]
                q.may_panic = p.may_panic
                q.pid = p.pid
                q.events = p.events
                s.stats['forks'] += 1
                s.end_panic(q, 'assert:' + t[4])
                p.pc.append(good)
                return t[3]
            if bool(v) != expected:
                raise Panic('assert:' + t[4])
            return t[3]
        if k == 'unreachable':
            raise Panic('unreachable')
        if k == 'panic':
            raise Panic(t[1])
        if k == 'call':
            dst, fname, argops, ret_bb = t[1], t[2], t[3], t[4]
            if ret_bb is None:
                raise Panic('diverging call ' + fname[:60])
            a = [s.operand(p, o) for o in argops]
            r = s.marker(p, fname, a)
            if r is None:
                r = s.opaque(p, fname, a)
            if r is None:
                r = s.intrinsic(p, fname, a, argops)
            if r is None:
                callee = s.fns.get(fname)
                if callee is None:
                    callee = s.fns.get(fname.split('::<')[0])
                if callee is None or not callee.blocks:
                    sn = shim_name(fname)
                    callee = s.fns.get('shims::' + sn) or s.fns.get(sn)
                    if callee is not None:
                        s.shims_used.add(fname)
                if callee is None or not callee.blocks:
                    raise MirError('call to function without body: ' + fname)
                fid = p.nfid
                p.nfid += 1
                for loc, vals in zip(callee.params, a):
                    p.mem[(fid, loc)] = list(vals)
                cb = callee.name.split('::')[-1]
                p.stack = p.stack + [Frame(callee, fid, dst, ret_bb, apply=cb if '_lemma_' in cb else None)]
                if len(p.stack) > 40:
                    raise Fuel('call depth')
                return 0
            if isinstance(r, tuple) and r and r[0] == 'fork':
                conds = []
                for c, vals in r[1]:
                    def fix(q, vals=vals):
                        if dst is not None:
                            o = s.obj(q, dst[0])
                            if o not in q.mem:
                                s.ensure(q, o, s.lty(q, dst[0]))
                            s.write_place(q, dst[0], dst[1], vals)
                    conds.append((c, (ret_bb, 0), fix))
                s.fork(p, conds, work)
                return None
            if dst is not None:
                o = s.obj(p, dst[0])
                if o not in p.mem:
                    s.ensure(p, o, s.lty(p, dst[0]))
                if r:
                    s.write_place(p, dst[0], dst[1], r)
            return ret_bb
        raise MirError('terminator ' + k)
