"""SMT-LIB2 query construction and the solver portfolio (z3 4.8.12, z3 5.1 as z3-new, cvc5)."""
import os
import re
import subprocess
import tempfile
import time
from fractions import Fraction

from .terms import T, Printer, is_sym, node, bnot, cmp, conj, disj, band, bor, subterms, sort_of
from .axioms import Axioms

SOLVERS = {
    'z3': ['/usr/bin/z3', '-in'],
    'z3-new': ['z3-new', '-in'],
    'cvc5': ['cvc5', '--lang', 'smt2'],
}
STATS = {'queries': 0, 'time': 0.0, 'by_solver': {}, 'by_result': {}}


def build_script(assertions, opts=None, want_model=None, extra=None, abstract=False):
    """assertions: list of Bool terms.  Returns (script text, axiom group counts, printer)."""
    opts = opts or {}
    assertions = [a for a in assertions if a is not True]
    if any(a is False for a in assertions):
        return None, {}, None
    ax = Axioms(opts)
    axs = ax.collect(assertions) if opts.get('axioms', True) else []
    pr = Printer(abstract_nonlinear=abstract)
    # opaque applications become constants (Ackermannised)
    body = []
    for a in assertions:
        body.append(pr_assert(pr, a))
    for a in axs:
        body.append(pr_assert(pr, a))
    lines = ['(set-option :produce-models true)', '(set-option :pp.decimal true)', '(set-option :pp.decimal_precision 17)'] if want_model is not None else []
    lines += pr.out
    lines += ['(assert %s)' % b for b in body]
    if extra:
        lines += extra
    lines.append('(check-sat)')
    if want_model:
        names = ' '.join('|%s|' % n for n in want_model if n in pr.vars)
        # also the values chosen for sin/cos applications and pi, so that angle inputs can be made consistent with them
        extra_names = []
        for a in pr.apps:
            k = T.lst[a[1]]
            if k[1] in ('sin', 'cos'):
                extra_names.append('|%s!%d|' % (k[1], a[1]))
        if 'pi' in pr.vars and 'pi' not in want_model:
            extra_names.append('|pi|')
        names = (names + ' ' + ' '.join(extra_names)).strip()
        if names:
            # twice: as 17-place decimals (algebraic numbers get an approximation) and exactly (tiny rationals, which the
            # decimal form truncates to 0, keep their value); get_model prefers the exact value where there is one
            lines.append('(get-value (%s))' % names)
            lines.append('(set-option :pp.decimal false)')
            lines.append('(get-value (%s))' % names)
    return '\n'.join(lines) + '\n', ax.groups, pr


def pr_assert(pr, a):
    return pr.p(a, 'Bool')


class AckPrinter(Printer):
    pass


def run_solver(script, solver='z3', timeout=20):
    cmd = list(SOLVERS[solver])
    if solver.startswith('z3'):
        cmd += ['-T:%d' % max(1, int(timeout))]
    else:
        cmd += ['--tlimit=%d' % int(timeout * 1000)]
    if solver == 'cvc5':
        script = '(set-logic ALL)\n' + '\n'.join(l for l in script.split('\n') if ':pp.decimal' not in l)
    t0 = time.time()
    try:
        r = subprocess.run(cmd, input=script, capture_output=True, text=True, timeout=timeout + 5)
        out = r.stdout.strip()
    except subprocess.TimeoutExpired:
        out = 'timeout'
    dt = time.time() - t0
    STATS['queries'] += 1
    STATS['time'] += dt
    STATS['by_solver'][solver] = STATS['by_solver'].get(solver, 0) + 1
    first = out.split('\n', 1)[0].strip() if out else 'unknown'
    if first in ('unsat', 'unknown'):
        # (get-value ..) after a non-sat answer is reported as an error by the solver: not a dropped assertion
        out = '\n'.join(l for l in out.split('\n') if 'model is not available' not in l and 'cannot get value unless' not in l and 'Cannot get value' not in l)
    if '(error' in out and not first in ('sat', 'unsat'):
        first = 'error'
    elif '(error' in out and first == 'unsat':
        first = 'error'     # an assertion may have been dropped: inconclusive
    if first not in ('sat', 'unsat', 'unknown', 'timeout', 'error'):
        first = 'timeout' if 'timeout' in out else 'unknown'
    STATS['by_result'][first] = STATS['by_result'].get(first, 0) + 1
    return first, out, dt


def portfolio(script, schedule):
    """schedule: list of (solver, timeout).  First definitive answer wins.
    Returns (result, solver, seconds, raw output, attempts)."""
    attempts = []
    total = 0.0
    for solver, to in schedule:
        r, out, dt = run_solver(script, solver, to)
        attempts.append((solver, r, round(dt, 3)))
        total += dt
        if r in ('sat', 'unsat'):
            return r, solver, total, out, attempts
    return 'unknown', None, total, '', attempts


def parse_value(txt):
    """Parse an SMT-LIB numeral/rational/algebraic value into Fraction or float (approximation)."""
    txt = txt.strip()
    if txt in ('true', 'false'):
        return txt == 'true'
    toks = re.findall(r'\(|\)|[^\s()]+', txt)
    pos = [0]

    def ev():
        t = toks[pos[0]]
        pos[0] += 1
        if t == '(':
            op = toks[pos[0]]
            pos[0] += 1
            args = []
            while toks[pos[0]] != ')':
                if op == '_' and not args and toks[pos[0]] not in ('(',):
                    args.append(toks[pos[0]])
                    pos[0] += 1
                    continue
                args.append(ev())
            pos[0] += 1
            if op == '-':
                return -args[0] if len(args) == 1 else args[0] - args[1]
            if op == '/':
                return Fraction(args[0]) / Fraction(args[1])
            if op == '+':
                return sum(args)
            if op == '*':
                r = 1
                for a in args:
                    r *= a
                return r
            if op == 'root-obj':
                return None
            if op == 'fp':
                import struct as _st
                bits = ''
                for a in args:
                    tt = a[1]
                    bits += tt[2:] if tt.startswith('#b') else bin(int(tt[2:], 16))[2:].zfill(4 * (len(tt) - 2))
                if len(bits) == 64:
                    return Fraction(_st.unpack('<d', _st.pack('<Q', int(bits, 2)))[0]) if bits[1:12] != '1' * 11 else None
                if len(bits) == 32:
                    return Fraction(_st.unpack('<f', _st.pack('<I', int(bits, 2)))[0]) if bits[1:9] != '1' * 8 else None
                return None
            if op == '_':
                return Fraction(0) if 'zero' in str(args[0]) else None
            if op == 'to_real':
                return args[0]
            raise ValueError('value op ' + op)
        if t.startswith('#b') or t.startswith('#x'):
            return ('bits', t)
        if t.endswith('?'):
            t = t[:-1]
        try:
            return Fraction(t)
        except Exception:
            return None
    try:
        return ev()
    except Exception:
        return None


def get_model(out):
    """Parse the (get-value ...) reply: dict name -> Fraction|bool|None."""
    m = {}
    txt = out.split('\n', 1)[1] if '\n' in out else ''
    # entries look like (|name| value)
    i = 0
    n = len(txt)
    while i < n:
        j = txt.find('(|', i)
        if j < 0:
            break
        k = txt.find('|', j + 2)
        name = txt[j + 2:k]
        # value extends to matching paren of the entry
        depth = 0
        e = j
        while e < n:
            if txt[e] == '(':
                depth += 1
            elif txt[e] == ')':
                depth -= 1
                if depth == 0:
                    break
            e += 1
        val = txt[k + 1:e].strip()
        v = parse_value(val)
        if v is not None or name not in m:
            m[name] = v
        i = e + 1
    return m
