"""Engine M driver: dump MIR of the harness crate against /repo's working tree, run every
harness of the property symbolically, discharge the obligations with the solver portfolio,
replay counterexamples natively, validate the executor differentially, write evidence."""
import glob
import json
import math
import os
import random
import re
import struct
import subprocess
import sys
import time
from concurrent.futures import ThreadPoolExecutor
from fractions import Fraction

from . import mir, solver
from .machine import Machine, Ptr, Str, Fuel, UNINIT
from .mir import MirError
from .terms import T, is_sym, node, var, cmp, bnot, band, bor, conj, disj, show, sort_of, arith, neg, substitute

VERIF = os.path.dirname(os.path.dirname(os.path.abspath(__file__)))
REPO = os.path.abspath(os.environ.get('VERIF_REPO', '/repo'))
BUILD = os.path.join(VERIF, '.build')
# Development aid (seeded-change runs in parallel): with VERIF_REPO=<scratch copy of /repo> the harness crate is copied
# to .build/scratch-<tag>/harness with its path dependency pointed at the copy, every build product gets the tag, and
# evidence / replay files go to .build/scratch-<tag>/evidence.  The registered commands never set VERIF_REPO.
import zlib as _zlib
TAG = '' if REPO == '/repo' else '-%s-%08x' % (re.sub(r'\W', '_', os.path.basename(REPO)), _zlib.crc32(REPO.encode()))
SCRATCH = os.path.join(BUILD, 'scratch' + TAG) if TAG else None
HDIR = os.path.join(SCRATCH, 'harness') if TAG else os.path.join(VERIF, 'harness')
EVDIR = os.path.join(SCRATCH, 'evidence') if TAG else os.path.join(VERIF, 'evidence')


def sync_scratch_harness():
    if not TAG:
        return
    os.makedirs(SCRATCH, exist_ok=True)
    subprocess.run(['rsync', '-a', '--delete', '--exclude', 'target', '--exclude', 'c17_prog.rs', os.path.join(VERIF, 'harness') + '/', HDIR + '/'], check=True)
    ct = os.path.join(HDIR, 'Cargo.toml')
    t = open(ct).read().replace('path = "/repo"', 'path = "%s"' % REPO)
    open(ct, 'w').write(t)
PI_LITS = {
    6.283185307179586: Fraction(2), 3.141592653589793: Fraction(1), 1.5707963267948966: Fraction(1, 2),
    0.7853981633974483: Fraction(1, 4), 1.0471975511965976: Fraction(1, 3), 1.0471975511965979: Fraction(1, 3),
    0.5235987755982988: Fraction(1, 6), 0.5235987755982989: Fraction(1, 6), 2.0943951023931953: Fraction(2, 3),
}
PI_RECIP = {57.29577951308232: 180, 0.017453292519943295: Fraction(1, 180)}


class Inconclusive(Exception):
    pass


def log(*a):
    print(*a, file=sys.stderr, flush=True)


def sh(cmd, **kw):
    return subprocess.run(cmd, capture_output=True, text=True, **kw)


# ------------------------------------------------------------------ build steps
def env_offline():
    e = dict(os.environ)
    e['CARGO_NET_OFFLINE'] = 'true'
    e.pop('RUSTFLAGS', None)
    return e


def dump_mir(feature, opt=2):
    os.makedirs(BUILD, exist_ok=True)
    out = os.path.join(BUILD, '%s%s-o%d.mir' % (feature, TAG, opt))
    hdir = HDIR
    lock = os.path.join(REPO, 'Cargo.lock')
    if os.path.exists(lock):
        subprocess.run(['cp', lock, os.path.join(hdir, 'Cargo.lock')])
    e = env_offline()
    e['RUSTFLAGS'] = ('-Zalways-encode-mir -Zinline-mir=yes -Zinline-mir-threshold=100000 -Zinline-mir-hint-threshold=100000 '
                      '-Zinline-mir-forwarder-threshold=100000 -Zmir-opt-level=%d -Cdebug-assertions=off -Coverflow-checks=off --cap-lints allow' % opt)
    os.utime(os.path.join(hdir, 'src', 'lib.rs'))
    t0 = time.time()
    with open(out, 'w') as fo, open(out + '.err', 'w') as fe:
        r = subprocess.run(['cargo', '+nightly', 'rustc', '--offline', '--lib', '--features', feature,
                            '--target-dir', os.path.join(BUILD, 'mir-%s%s' % (feature, TAG)), '--', '-Zunpretty=mir'],
                           cwd=hdir, env=e, stdout=fo, stderr=fe)
    if r.returncode != 0:
        err = open(out + '.err').read()
        raise BuildError('MIR dump failed:\n' + err[-4000:])
    return out, time.time() - t0


class BuildError(Exception):
    pass


def build_native(feature, release=False):
    hdir = HDIR
    tdir = os.path.join(BUILD, 'native-%s%s' % (feature, TAG))
    cmd = ['cargo', 'build', '--offline', '--features', 'native,' + feature, '--bin', 'replay', '--target-dir', tdir]
    if release:
        cmd.append('--release')
    r = sh(cmd, cwd=hdir, env=env_offline())
    if r.returncode != 0:
        raise BuildError('native build failed:\n' + r.stderr[-4000:])
    return os.path.join(tdir, 'release' if release else 'debug', 'replay')


# ------------------------------------------------------------------ leaves <-> native
def leaf_tok(v):
    if isinstance(v, bool):
        return 'b:%d' % int(v)
    if isinstance(v, int):
        return 'i:%d' % v
    return 'f:%016x' % struct.unpack('<Q', struct.pack('<d', float(v)))[0]


def parse_leaf(tok):
    k, v = tok[:2], tok[2:]
    if k == 'f:':
        return struct.unpack('<d', struct.pack('<Q', int(v, 16)))[0]
    if k == 'i:':
        return int(v)
    if k == 'b:':
        return v == '1'
    raise ValueError(tok)


def run_native(binary, harness, vectors):
    inp = '\n'.join(' '.join(leaf_tok(v) for v in vec) for vec in vectors) + '\n'
    r = subprocess.run([binary, harness], input=inp, capture_output=True, text=True, timeout=120)
    if r.returncode != 0:
        raise Inconclusive('native replay binary failed: ' + r.stderr[-500:])
    runs = []
    cur = None
    for line in r.stdout.split('\n'):
        if line == 'BEGIN':
            cur = []
        elif line == 'END':
            runs.append(cur)
            cur = None
        elif cur is not None and line:
            parts = line.split(' ')
            kind = parts[0]
            if kind == 'ASSUME':
                cur.append(('ASSUME', parts[1] == '1', parts[2][1:] if len(parts) > 2 and parts[2].startswith('@') else None))
            elif kind == 'ASSUMEEQ':
                lem = None
                if parts[1].startswith('@'):
                    lem = parts[1][1:]
                    parts = parts[:1] + parts[2:]
                i = parts.index('|')
                cur.append(('ASSUMEEQ', [parse_leaf(x) for x in parts[1:i]], [parse_leaf(x) for x in parts[i + 1:]], lem))
            elif kind == 'ASSERT':
                cur.append(('ASSERT', parts[1], parts[2] == '1'))
            elif kind == 'ASSERTEQ':
                i = parts.index('|')
                cur.append(('ASSERTEQ', parts[1], [parse_leaf(x) for x in parts[2:i]], [parse_leaf(x) for x in parts[i + 1:]]))
            elif kind == 'COVER':
                cur.append(('COVER', parts[1]))
            elif kind == 'OUT':
                cur.append(('OUT', parts[1], [parse_leaf(x) for x in parts[2:]]))
            elif kind == 'PANIC':
                cur.append(('PANIC',))
    return runs


def same_leaf(a, b, exact, tol=1e-9):
    if isinstance(a, bool) or isinstance(b, bool):
        return bool(a) == bool(b)
    if isinstance(a, int) and isinstance(b, int):
        return a == b
    a = float(a)
    b = float(b)
    if a != a and b != b:
        return True
    if exact:
        return struct.pack('<d', a) == struct.pack('<d', b) or a == b
    return abs(a - b) <= tol * max(1.0, abs(a), abs(b))


def close(a, b, tol=1e-6):
    if isinstance(a, bool) or isinstance(b, bool) or (isinstance(a, int) and isinstance(b, int)):
        return a == b
    a = float(a)
    b = float(b)
    if a != a and b != b:
        return True          # NaN on both sides: the same (non-)value
    if a != a or b != b:
        return False
    if math.isinf(a) or math.isinf(b):
        return a == b
    return abs(a - b) <= tol * max(1.0, abs(a), abs(b))


def same_bits(a, b):
    if isinstance(a, bool) or isinstance(b, bool) or (isinstance(a, int) and isinstance(b, int)):
        return a == b
    a = float(a)
    b = float(b)
    if a != a and b != b:
        return True
    return struct.pack('<d', a) == struct.pack('<d', b)


# ------------------------------------------------------------------ harness discovery
def harness_fns(fns, prop):
    pre = prop.lower() + '_'
    out = []
    for name in fns:
        base = name.split('::')[-1]
        if base.startswith(pre) and '{' not in name and '<' not in name:
            out.append(name)
    return sorted(out)


def debug_names(text, fname):
    m = re.search(r'^fn %s\(.*?\n((?:    debug .*\n)+)' % re.escape(fname), text, re.M)
    names = {}
    if m:
        for mm in re.finditer(r'debug (\w+) => _(\d+);', m.group(1)):
            names[int(mm.group(2))] = mm.group(1)
    return names


def sym_inputs(fn, names, mode='REAL'):
    init = []
    order = []
    ranges = []
    for loc in fn.params:
        ty = fn.locals[loc]
        lts = mir.leaf_types(ty)
        vals = []
        pname = names.get(loc, 'p%d' % loc)
        for i, lt in enumerate(lts):
            nm = '%s.%d' % (pname, i) if len(lts) > 1 else pname
            if lt in mir.FLOATS and mode == 'FP':
                fs = 'F64' if lt == 'f64' else 'F32'
                v = var(nm, fs)
                # every finite float: not NaN, not infinite
                ranges.append(band(bnot(T.mk('Bool', 'fp.isNaN', v)), bnot(T.mk('Bool', 'fp.isInfinite', v))))
            elif lt in mir.FLOATS:
                v = var(nm, 'Real')
            elif lt == 'bool':
                v = var(nm, 'Bool')
            elif lt in mir.INT_BITS:
                v = var(nm, 'Int')
                b = mir.INT_BITS[lt]
                if lt[0] == 'u':
                    ranges.append(band(cmp('>=', v, 0), cmp('<=', v, (1 << b) - 1)))
                else:
                    ranges.append(band(cmp('>=', v, -(1 << (b - 1))), cmp('<=', v, (1 << (b - 1)) - 1)))
            else:
                raise MirError('harness parameter leaf of type %s' % lt)
            vals.append(v)
            order.append((nm, lt))
        init.append(vals)
    sym_inputs.ranges = ranges
    return init, order


def rand_inputs(order, rng, opts):
    vec = []
    for nm, lt in order:
        if lt in mir.FLOATS:
            vec.append(rng.randint(-24, 24) / 8.0)
        elif lt == 'bool':
            vec.append(rng.random() < 0.5)
        else:
            hi = opts.get('int_hi', 4)
            lo = opts.get('int_lo', 0)
            if lt[0] == 'i' and lt != 'isize':
                lo = opts.get('int_lo', -hi)
            vec.append(rng.randint(lo, hi))
    return vec


def split_inputs(fn, vec):
    init = []
    i = 0
    for loc in fn.params:
        n = mir.nleaves(fn.locals[loc])
        init.append(list(vec[i:i + n]))
        i += n
    return init


# ------------------------------------------------------------------ the check
class Check:
    def __init__(s, prop, tier='quick', seed=0, opts_table=None, jobs=14):
        s.prop = prop
        s.tier = tier
        s.seed = seed
        s.table = opts_table or {}
        s.jobs = jobs
        s.feature = prop.lower()
        s.t0 = time.time()
        s.results = []
        s.samples = []
        s.violations = []
        s.inconclusive = []
        s.known = []
        s.stats = {'states': 0, 'transitions': 0, 'paths': 0, 'forks': 0, 'pruned': 0, 'stmts': 0, 'obligations': 0, 'discharged': 0, 'trivial': 0,
                   'stretch_attempted': 0, 'stretch_discharged': 0, 'covers': 0, 'validated': 0, 'feas_queries': 0}
        s.functions = set()
        s.instantiations = set()
        s.axiom_groups = {}
        s.harness_info = {}
        s.feas_cache = {}
        s.binary = None
        s.fns = None
        s.text = ''

    def opts(s, h):
        base = h.split('::')[-1]
        o = dict(s.table.get('*', {}))
        o.update(s.table.get(base, {}))
        return o

    def schedule(s, o):
        if 'schedule' in o and s.tier in o['schedule']:
            return o['schedule'][s.tier]
        if o.get('mixed_int'):
            # mixed integer/real linear arithmetic (fmod contracts): cvc5 decides these instantly, z3 does not
            return [('cvc5', 10), ('z3', 6), ('z3-new', 12)] if s.tier == 'quick' else [('cvc5', 60), ('z3', 30), ('z3-new', 60)]
        if s.tier == 'quick':
            return [('z3', 6), ('z3-new', 12), ('z3', 45)]
        return [('z3', 10), ('z3-new', 40), ('cvc5', 20), ('z3', 120), ('z3-new', 120)]

    # ---------------- feasibility of forks
    def make_feasible(s, o):
        def feas(pc):
            key = tuple(pc)
            r = s.feas_cache.get(key)
            if r is not None:
                return r
            script, _, _ = solver.build_script(list(pc), o)
            if script is None:
                s.feas_cache[key] = False
                return False
            res, out, dt = solver.run_solver(script, o.get('feas_solver', 'z3'), o.get('feas_timeout', 3))
            s.stats['feas_queries'] += 1
            ok = res != 'unsat'
            s.feas_cache[key] = ok
            return ok
        return feas

    # ---------------- main
    def prepare(s):
        sync_scratch_harness()
        srcs = sorted(glob.glob(os.path.join(REPO, 'src', '*.rs'))) + [os.path.join(HDIR, 'src', 'lib.rs'), os.path.join(HDIR, 'src', 'r32.rs')]
        mir.load_structs(srcs)
        mir._nl.clear()
        mir.CLOSURES.clear()
        if s.prop == 'C17':
            # seeded random straight-line programs, regenerated on every run (VERIF_SEED)
            n = s.table.get('*', {}).get('programs', {}).get(s.tier, 20)
            r = sh([sys.executable, os.path.join(VERIF, 'tools', 'gen_c17.py'), 'programs', str(s.seed), str(n)],
                   env=dict(os.environ, VERIF_HDIR=HDIR if TAG else ''))
            if r.returncode != 0:
                raise BuildError('program generator failed: ' + r.stderr[-2000:])
        path, dt = dump_mir(s.feature)
        s.dump_s = dt
        s.text = open(path).read()
        s.fns = mir.parse_mir(s.text)
        s.harnesses = harness_fns(s.fns, s.prop)
        if not s.harnesses:
            raise Inconclusive('no harness functions found for %s' % s.prop)
        s.binary = build_native(s.feature)

    def pi_term(s, c):
        from .axioms import pi
        return arith('*', pi(), c)

    def run_harness(s, h):
        o = s.opts(h)
        fn = s.fns[h]
        for sc in fn.scopes:
            if 'cgmath' in sc:
                s.functions.add(re.sub(r'\s+', ' ', sc))
        names = debug_names(s.text, h)
        T_before = len(T.lst)
        init, order = sym_inputs(fn, names, o.get('mode', 'REAL'))
        m = Machine(s.fns, o.get('mode', 'REAL'), feasible=s.make_feasible(o), fuel=o.get('fuel', 400000), max_forks=o.get('max_forks', 512))
        if o.get('pi_symbolic', False):
            from .axioms import pi
            def fl(c, _m=m):
                c = float(c)
                k = PI_LITS.get(abs(c))
                if k is not None:
                    t = arith('*', pi(), k)
                    return t if c > 0 else neg(t)
                k = PI_RECIP.get(abs(c))
                if k is not None:
                    t = arith('/', Fraction(180), pi()) if k == 180 else arith('/', pi(), Fraction(180))
                    return t if c > 0 else neg(t)
                return Fraction(c)
            m.fl = fl
        t0 = time.time()
        m.run(h, init, list(sym_inputs.ranges))
        info = {'paths': m.stats['paths'], 'returned': len(m.returned), 'panicked': len(m.panicked), 'stmts': m.stats['stmts'], 'blocks': m.stats['blocks'],
                'forks': m.stats['forks'], 'pruned': m.stats['pruned'], 'obligations': len(m.obligations), 'exec_s': round(time.time() - t0, 3), 'opaque': sorted(m.opaque_used)}
        for k in ('paths', 'forks', 'pruned', 'stmts'):
            s.stats[k] += m.stats[k]
        s.stats['states'] += m.stats['blocks']
        s.stats['transitions'] += m.stats['transitions']
        s.harness_info[h] = info
        for loc in fn.params:
            s.instantiations.add(fn.locals[loc])
        return m, order, o

    def symbols_of(s, x):
        """frozenset of variable names and opaque-application ids occurring in a term (memoised per term table)"""
        from .terms import subterms, T as _T
        memo = getattr(s, '_symmemo', None)
        if memo is None or memo[0] is not _T.lst:
            memo = s._symmemo = (_T.lst, {})
        if not is_sym(x):
            return frozenset()
        r = memo[1].get(x[1])
        if r is None:
            out = set()
            for i in subterms([x]):
                k = _T.lst[i]
                if k[0] == 'var':
                    out.add(k[1])
                elif k[0] == 'app':
                    out.add(('app', i))
            r = memo[1][x[1]] = frozenset(out)
        return r

    def solve_obligation(s, ob, o, order):
        """-> dict(result, solver, time, model?)"""
        kind = ob['kind']
        pc = list(ob['pc'])
        if kind == 'eq':
            goal = cmp('=', ob['lhs'], ob['rhs'])
        elif kind == 'bool':
            goal = ob['cond']
        else:
            goal = False     # unreach / nopanic: the path condition itself must be unsatisfiable
        if goal is True:
            return {'result': 'unsat', 'solver': 'trivial', 'time': 0.0, 'trivial': True}
        neg_goal = bnot(goal) if goal is not False else True
        if o.get('using') and ob['id'].split('#')[0] in o['using']:
            pass
        names = [nm for nm, _ in order]
        # Attempts with a reduced hypothesis set (dropping hypotheses is sound for an `unsat` verdict) and with
        # non-linear products abstracted to free constants (sound over-approximation): proof scripts put the
        # relevant lemma right before the goal, so the last few atoms usually suffice and close instantly.
        if o.get('abstract_first', True):
            tried = set()
            # 'rel': only the hypotheses that speak about nothing but the goal's own symbols (variables and opaque
            # applications) -- independent of how far back on the path they were assumed
            gsy = s.symbols_of(neg_goal)
            rel = [h for h in pc if s.symbols_of(h) <= gsy]
            for kctx in ('rel',) + tuple(o.get('contexts', (3, 8, 20, None))):
                if kctx == 'rel':
                    if not rel or len(rel) == len(pc):
                        continue
                    sub = rel
                    tried.add(('rel', len(sub)))
                    ascript, agroups, apr = solver.build_script(sub + [neg_goal], o, abstract=True)
                    if ascript is not None and apr.abstracted:
                        ares, aout, adt = solver.run_solver(ascript, 'z3', o.get('abstract_timeout', 2))
                        if ares == 'unsat':
                            s.stats['abstract_unsat'] = s.stats.get('abstract_unsat', 0) + 1
                            return {'result': 'unsat', 'solver': 'z3 (non-linear terms abstracted, hypotheses over the goal symbols)', 'time': round(adt, 3), 'axioms': agroups}
                    cscript, cgroups, cpr = solver.build_script(sub + [neg_goal], o)
                    if cscript is not None:
                        cres, cout, cdt = solver.run_solver(cscript, 'z3', o.get('focus_timeout', 3))
                        if cres == 'unsat':
                            s.stats['focused_unsat'] = s.stats.get('focused_unsat', 0) + 1
                            return {'result': 'unsat', 'solver': 'z3 (hypotheses over the goal symbols)', 'time': round(cdt, 3), 'axioms': cgroups}
                    continue
                sub = pc if kctx is None or kctx >= len(pc) else pc[-kctx:]
                key = len(sub)
                if key in tried:
                    continue
                tried.add(key)
                ascript, agroups, apr = solver.build_script(sub + [neg_goal], o, abstract=True)
                if ascript is not None and apr.abstracted:
                    ares, aout, adt = solver.run_solver(ascript, 'z3', o.get('abstract_timeout', 2))
                    if ares == 'unsat':
                        s.stats['abstract_unsat'] = s.stats.get('abstract_unsat', 0) + 1
                        return {'result': 'unsat', 'solver': 'z3 (non-linear terms abstracted, last %s hypotheses)' % (kctx or 'all'), 'time': round(adt, 3), 'axioms': agroups}
                if kctx is not None and kctx < len(pc):
                    cscript, cgroups, cpr = solver.build_script(sub + [neg_goal], o)
                    if cscript is not None:
                        cres, cout, cdt = solver.run_solver(cscript, 'z3', o.get('focus_timeout', 3))
                        if cres == 'unsat':
                            s.stats['focused_unsat'] = s.stats.get('focused_unsat', 0) + 1
                            return {'result': 'unsat', 'solver': 'z3 (last %d hypotheses)' % kctx, 'time': round(cdt, 3), 'axioms': cgroups}
        script, groups, pr = solver.build_script(pc + [neg_goal], o, want_model=names)
        if script is None:
            return {'result': 'unsat', 'solver': 'trivial', 'time': 0.0, 'trivial': True}
        res, who, dt, out, attempts = solver.portfolio(script, s.schedule(o))
        r = {'result': res, 'solver': who, 'time': round(dt, 3), 'attempts': attempts, 'axioms': groups}
        if res == 'sat':
            r['model'] = solver.get_model(out)
            r['script'] = script
        if res == 'unknown':
            r['script'] = script
        return r

    def fix_angles(s, model, order):
        """The solver picks values for sin(k*t), cos(k*t) as free reals (subject to the axioms); an angle input t that only
        feeds trigonometric functions is then set to atan2(sin, cos)/k so that the native run sees the same sines and cosines."""
        import math as _m
        best = {}
        pi_val = float(model.get('pi') or _m.pi)
        def evalf(x, env):
            if not is_sym(x):
                return float(x)
            k = node(x)
            if k[0] == 'var':
                if k[1] == 'pi':
                    return pi_val
                return env[k[1]]
            if k[0] in ('+', '-', '*', '/'):
                a, b = evalf(k[1], env), evalf(k[2], env)
                return a + b if k[0] == '+' else a - b if k[0] == '-' else a * b if k[0] == '*' else a / b
            if k[0] == 'neg':
                return -evalf(k[1], env)
            raise KeyError(k[0])
        names = [nm for nm, lt in order if lt in mir.FLOATS]
        for key, val in model.items():
            mm = re.match(r'^(sin|cos)!(\d+)$', key)
            if not mm or val is None:
                continue
            t = ('t', int(mm.group(2)))
            arg = node(t)[2]
            from .terms import subterms
            vs = [node(('t', i))[1] for i in subterms([arg]) if node(('t', i))[0] == 'var' and node(('t', i))[1] != 'pi']
            if len(vs) != 1 or vs[0] not in names:
                continue
            try:
                c1 = evalf(arg, {vs[0]: 1.0}) - evalf(arg, {vs[0]: 0.0})
                c0 = evalf(arg, {vs[0]: 0.0})
            except (KeyError, ZeroDivisionError):
                continue
            if c1 == 0:
                continue
            best.setdefault((vs[0], c1, c0), {})[mm.group(1)] = float(val)
        out = dict(model)
        done = set()
        for (v, c1, c0), d in sorted(best.items(), key=lambda kv: abs(kv[0][1])):
            if v in done or 'sin' not in d or 'cos' not in d:
                continue
            out[v] = Fraction((_m.atan2(d['sin'], d['cos']) - c0) / c1)
            done.add(v)
        return out

    def model_vector(s, model, order):
        try:
            model = s.fix_angles(model, order)
        except Exception:
            pass
        vec = []
        for nm, lt in order:
            v = model.get(nm)
            if v is None:
                v = 0
            if lt in mir.FLOATS:
                vec.append(float(v))
            elif lt == 'bool':
                vec.append(bool(v))
            else:
                vec.append(int(v))
        return vec

    def exact_run_fails(s, h, ob, vec, order):
        """Re-run the executor on the concrete model in exact rational arithmetic (opaque functions evaluated where
        their arguments are concrete): does the same assertion fail there?  Used only to interpret tiny native
        residuals (a violation whose witness is inherently small, e.g. a determinant of 2^-60 treated as zero)."""
        try:
            fn = s.fns[h]
            o = s.opts(h)
            m = Machine(s.fns, 'REAL', feasible=None, fuel=o.get('fuel', 400000))
            conc = [Fraction(v) if lt in mir.FLOATS else v for v, (nm, lt) in zip(vec, order)]
            m.concrete_opaque = True
            m.run(h, split_inputs(fn, conc))
            for ob2 in m.obligations:
                if ob2['id'] == ob['id'] and ob2['leaf'] == ob['leaf']:
                    if ob2['kind'] == 'eq' and not is_sym(ob2['lhs']) and not is_sym(ob2['rhs']):
                        return ob2['lhs'] != ob2['rhs']
                    if ob2['kind'] == 'bool' and isinstance(ob2['cond'], bool):
                        return not ob2['cond']
            return False
        except Exception:
            return False

    def replay_model(s, h, ob, vec, order=None):
        if s.opts(h).get('exact_replay'):
            return s.replay_model0(h, ob, vec, strict='bits')
        r = s.replay_model0(h, ob, vec, strict=False)
        if not r[0] and order is not None and r[1].startswith('native lhs=') and s.exact_run_fails(h, ob, vec, order):
            r2 = s.replay_model0(h, ob, vec, strict=True)
            if r2[0]:
                return True, r2[1] + ' (tiny residual; the assertion also fails when the code is run on these inputs in exact rational arithmetic)'
        return r

    def replay_model0(s, h, ob, vec, strict=False):
        """Run the native build on the model; True if the same obligation fails there."""
        runs = run_native(s.binary, h.split('::')[-1], [vec])
        if not runs:
            return False, 'no output'
        ev = runs[0]
        want_id, want_k = ob['id'].rsplit('#', 1)
        want_k = int(want_k)
        seen = {}
        lemma_k = {}
        for e in ev:
            lem = e[-1] if e[0] in ('ASSUME', 'ASSUMEEQ') else None
            if lem:
                # an assumption inside a lemma function applied by the harness: the precondition of that application, i.e.
                # an obligation (`apply:<lemma>:pre#k`, k counting the lemma's assumptions along the run)
                k = lemma_k.get(lem, 0)
                lemma_k[lem] = k + 1
                if want_id == 'apply:%s:pre' % lem and k == want_k:
                    if e[0] == 'ASSUME':
                        return (not e[1]), 'lemma precondition is %s natively' % e[1]
                    a, b = e[1][ob['leaf']], e[2][ob['leaf']]
                    return (not close(a, b)), 'lemma precondition natively lhs=%r rhs=%r' % (a, b)
                continue
            if e[0] == 'ASSUME' and not e[1]:
                return False, 'assumption false natively'
            if e[0] == 'ASSUMEEQ':
                if not all(close(a, b, 1e-7) for a, b in zip(e[1], e[2])):
                    return False, 'equational assumption not met natively'
            if e[0] == 'PANIC':
                if ob['kind'] == 'nopanic':
                    return True, 'panics natively'
                return False, 'panicked before the assertion'
            if e[0] in ('ASSERT', 'ASSERTEQ'):
                k = seen.get(e[1], 0)
                seen[e[1]] = k + 1
                if e[1] == want_id and k == want_k:
                    if e[0] == 'ASSERT':
                        return (not e[2]), 'native assert %s' % e[2]
                    a, b = e[2][ob['leaf']], e[3][ob['leaf']]
                    if strict == 'bits':
                        return (not same_bits(a, b)), 'native lhs=%r rhs=%r (bit-exact comparison)' % (a, b)
                    if strict:
                        # only used after exact_run_fails(): the code, run on these very inputs in exact rational arithmetic
                        # (no irrational opaque function involved), fails the assertion -- a rigorous counterexample over the
                        # reals.  The native run then only has to show that the real build differs as well, by however little.
                        same = (a == b) or (isinstance(a, float) and isinstance(b, float) and a != a and b != b)
                        return (not same), 'native lhs=%r rhs=%r' % (a, b)
                    return (not close(a, b, s.opts(h).get('replay_tol', 1e-6))), 'native lhs=%r rhs=%r' % (a, b)
        return False, 'assertion not reached natively'

    def robust_models(s, ob, o, order, first_model):
        """Replay-friendly models first (inputs bounded by 4, then 64, residual > 2^-8: well-conditioned, so the native
        floating-point run means what the exact model means); the solver's raw model last."""
        for m in s.bounded_models(ob, o, order):
            yield m
        yield first_model
        # When the failing clause is about an uninterpreted predicate (is_finite, ulps_eq ...), the model fixes the
        # predicate's value, not inputs that realise it: also try the extreme magnitudes (largest finite values, whose
        # sums overflow; tiny values inside every absolute tolerance).
        fl = [nm for nm, lt in order if lt in mir.FLOATS]
        if fl and len(fl) <= 64:
            big = Fraction(1.7976931348623157e308)
            tiny = Fraction(1, 2 ** 600)      # squares and products of these underflow to zero
            for pat in ([big], [-big], [big, Fraction(0)], [Fraction(0), big], [Fraction(2.0 ** -70)], [big, -big], [tiny], [tiny, Fraction(0)], [Fraction(0), tiny], [tiny, -tiny]):
                cand = {nm: first_model.get(nm) for nm, lt in order}
                for i, nm in enumerate(fl):
                    cand[nm] = pat[i % len(pat)]
                yield cand
            # ... and a single non-finite component at each position in turn (is_finite / is_nan clauses)
            if len(fl) <= 20:
                for special in (float('inf'), float('nan')):
                    for nm in fl:
                        cand = {k: first_model.get(k) for k, _ in order}
                        for k in fl:
                            if cand.get(k) is None:
                                cand[k] = Fraction(1)
                        cand[nm] = special
                        yield cand
        if o.get('exact_replay'):
            # operations are uninterpreted in this mode, so the solver's model says nothing about rounding: also try
            # inputs whose quotients and products are inexact
            rng = random.Random(12345)
            pool = [5.0, 7.0, 49.0, 0.1, 3.0, -2.5, 1.0 / 3.0, 10.0, 0.7, -13.0, 1e-3, 123.456]
            for _ in range(24):
                yield {nm: (Fraction(rng.choice(pool)) if lt in mir.FLOATS else (rng.random() < 0.5 if lt == 'bool' else rng.randint(1, 9))) for nm, lt in order}
            # structured candidates: a parameter with n*n float leaves may be a matrix -- make it the identity up to one
            # rounding unit (diagonal 1 + 2^-52, one off-diagonal 1e-17), which approximate predicates treat as identity
            groups = {}
            for nm, lt in order:
                groups.setdefault(nm.split('.')[0], []).append((nm, lt))
            for pick in range(4):
                cand = {}
                for gi, (g, leaves) in enumerate(sorted(groups.items())):
                    n = int(round(len(leaves) ** 0.5))
                    square = n * n == len(leaves) and n >= 2 and all(lt in mir.FLOATS for _, lt in leaves)
                    for i, (nm, lt) in enumerate(leaves):
                        if lt not in mir.FLOATS:
                            cand[nm] = (rng.random() < 0.5) if lt == 'bool' else rng.randint(1, 9)
                        elif square and (gi + pick) % 2 == 0:
                            cand[nm] = Fraction(1.0 + 2.0 ** -52) if i % (n + 1) == 0 and i == 0 else (Fraction(1) if i % (n + 1) == 0 else (Fraction(1e-17) if i == 1 else Fraction(0)))
                        else:
                            cand[nm] = Fraction(rng.choice(pool))
                yield cand

    def bounded_models(s, ob, o, order):
        names = [nm for nm, lt in order if lt in mir.FLOATS]
        pc = list(ob['pc'])
        if ob['kind'] == 'eq':
            d = arith('-', ob['lhs'], ob['rhs'])
            goal = bor(cmp('>', d, Fraction(1, 256)), cmp('<', d, Fraction(-1, 256)))
        elif ob['kind'] == 'bool':
            goal = bnot(ob['cond'])
        else:
            goal = True
        # third variant: no floor on the residual (the witness may be inherently tiny, e.g. inside an absolute tolerance),
        # but every input is 0 or at least 2^-60 in magnitude, so that squares and products do not underflow natively
        plain_goal = bnot(cmp('=', ob['lhs'], ob['rhs'])) if ob['kind'] == 'eq' else goal
        for bound, g in ((4, goal), (64, goal), (4, plain_goal)):
            extra = []
            for nm in names:
                extra.append('(assert (and (<= (- %d.0) |%s|) (<= |%s| %d.0)))' % (bound, nm, nm, bound))
                if g is plain_goal:
                    extra.append('(assert (or (= |%s| 0.0) (>= |%s| (/ 1.0 1152921504606846976.0)) (<= |%s| (- (/ 1.0 1152921504606846976.0)))))' % (nm, nm, nm))
            script, _, pr = solver.build_script(pc + [g], o, want_model=[nm for nm, _ in order], extra=None)
            if script is None:
                continue
            # place the bounds before (check-sat)
            script = script.replace('(check-sat)', '\n'.join(e for e in extra if e.split('|')[1] in pr.vars) + '\n(check-sat)')
            res, who, dt, out, attempts = solver.portfolio(script, [('z3', 10), ('z3-new', 10)])
            if res == 'sat':
                yield solver.get_model(out)

    def check_harness(s, h, pool):
        try:
            m, order, o = s.run_harness(h)
        except (MirError, Fuel, KeyError, IndexError, ValueError, TypeError, AttributeError) as e:
            import traceback
            if getattr(s, 'phase2', False):
                # the opt-level-1 dump is a cross-check only: MIR shapes the executor does not support there are counted, not failed
                s.stats['second_lowering_unsupported'] = s.stats.get('second_lowering_unsupported', 0) + 1
                log('  %s: second lowering not supported by the executor (%s)' % (h, str(e)[:120]))
                return
            s.inconclusive.append((h, 'executor: %s: %s' % (type(e).__name__, str(e)[:300])))
            log('  %s: EXECUTOR ERROR %s: %s' % (h, type(e).__name__, str(e)[:300]))
            if os.environ.get('VERIF_DEBUG'):
                traceback.print_exc()
            return
        stretch = set(o.get('stretch', []))
        obs = m.obligations
        s.stats['obligations'] += len(obs)
        def timed(ob):
            t0 = time.time()
            r = s.solve_obligation(ob, o, order)
            r['wall'] = round(time.time() - t0, 2)
            if os.environ.get('VERIF_DEBUG') and r['wall'] > 4:
                log('    slow: %s leaf %d wall=%.1fs result=%s by %s attempts=%s' % (ob['id'], ob['leaf'], r['wall'], r['result'], r.get('solver'), r.get('attempts')))
            return r
        futs = [(ob, pool.submit(timed, ob)) for ob in obs]
        nun = nsat = nunk = 0
        worst = 0.0
        for ob, fu in futs:
            r = fu.result()
            base = ob['id'].split('#')[0]
            is_stretch = base in stretch
            if is_stretch:
                s.stats['stretch_attempted'] += 1
            if r['time'] > worst:
                worst = r['time']
                s.harness_info[h]['slowest'] = '%s leaf %d (%s %.1fs)' % (ob['id'], ob['leaf'], r.get('solver'), r['time'])
            for g, c in r.get('axioms', {}).items():
                s.axiom_groups[g] = s.axiom_groups.get(g, 0) + c
            if r['result'] == 'unsat':
                nun += 1
                s.stats['discharged'] += 1
                if r.get('trivial'):
                    s.stats['trivial'] += 1
                if is_stretch:
                    s.stats['stretch_discharged'] += 1
                if len(s.samples) < 12 and not r.get('trivial') and (len(s.samples) < 4 or r['time'] > 0.5):
                    s.samples.append(s.sample(h, ob, r))
            elif r['result'] == 'sat':
                nsat += 1
                s.handle_sat(h, ob, r, o, order, is_stretch)
            else:
                nunk += 1
                if is_stretch:
                    log('  %s: stretch obligation %s leaf %d undecided %s' % (h, ob['id'], ob['leaf'], r.get('attempts')))
                    s.results.append({'harness': h, 'id': ob['id'], 'leaf': ob['leaf'], 'status': 'stretch-undecided'})
                else:
                    s.inconclusive.append((h, 'obligation %s leaf %d undecided: %s' % (ob['id'], ob['leaf'], r.get('attempts'))))
                    log('  %s: UNDECIDED %s leaf %d %s' % (h, ob['id'], ob['leaf'], r.get('attempts')))
                    if os.environ.get('VERIF_DEBUG') and r.get('script'):
                        open(os.path.join(BUILD, 'undecided-%s-%s-%d.smt2' % (h.split('::')[-1], re.sub(r'\W', '_', ob['id']), ob['leaf'])), 'w').write(r['script'])
        # vacuity: every cover id must be reachable on some path -- decided after the differential runs
        # (a native run that reaches the cover is a witness; the solver is asked only for the others)
        cov_ok = {cid: False for cid in m.covers}
        s.pending_covers = (m.covers, o)
        s.harness_info[h]['covers'] = cov_ok
        s.harness_info[h]['order'] = order
        s.harness_info[h]['cover_ids'] = list(m.covers.keys())
        s.harness_info[h]['unsat'] = nun
        s.harness_info[h]['sat'] = nsat
        s.harness_info[h]['unknown'] = nunk
        if not m.covers and not o.get('no_cover', False):
            s.inconclusive.append((h, 'harness has no reachability witness (vcover) on any returning path'))
        log('  %-28s paths=%d stmts=%d forks=%d obligations=%d unsat=%d sat=%d unknown=%d exec=%.2fs worst=%.2fs' % (
            h.split('::')[-1], m.stats['paths'], m.stats['stmts'], m.stats['forks'], len(obs), nun, nsat, nunk, s.harness_info[h]['exec_s'], worst))

    def sample(s, h, ob, r):
        d = {'harness': h.split('::')[-1], 'assert': ob['id'], 'leaf': ob['leaf'], 'kind': ob['kind'], 'path_condition_atoms': len(ob['pc']),
             'solver': r['solver'], 'seconds': r['time'], 'verdict': 'unsat (holds for every input on this path)'}
        if ob['kind'] == 'eq':
            d['lhs'] = show(ob['lhs'], 4)[:300]
            d['rhs'] = show(ob['rhs'], 4)[:300]
        if ob['pc']:
            d['path_condition'] = [show(c, 3)[:160] for c in ob['pc'][:6]]
        return d

    def handle_sat(s, h, ob, r, o, order, is_stretch):
        base = h.split('::')[-1]
        reproduced = None
        why = ''
        vec = None
        for model in s.robust_models(ob, o, order, r['model']):
            vec = s.model_vector(model, order)
            try:
                ok, why = s.replay_model(h, ob, vec, order)
            except Inconclusive as e:
                ok, why = False, str(e)
            if ok:
                reproduced = vec
                break
        key = (s.prop, base, ob['id'].split('#')[0])
        if reproduced is not None:
            rp = s.write_replay(h, ob, reproduced, why, order)
            s.violations.append({'harness': base, 'id': ob['id'], 'leaf': ob['leaf'], 'replay': rp, 'why': why, 'key': key})
            log('  %s: COUNTEREXAMPLE %s leaf %d reproduces natively (%s) -> %s' % (base, ob['id'], ob['leaf'], why, rp))
        elif any(kp == s.prop and kh == base and ka == ob['id'].split('#')[0] for kp, kh, ka, _ in s.load_known()):
            # a listed known finding whose solver model did not replay this time (rounding at a boundary): still that finding
            s.violations.append({'harness': base, 'id': ob['id'], 'leaf': ob['leaf'], 'replay': None, 'why': 'solver counterexample (not replayed: %s)' % why, 'key': key})
        else:
            msg = 'model for %s leaf %d does not reproduce natively (%s)' % (ob['id'], ob['leaf'], why)
            if is_stretch or ob.get('lemma'):
                msg = 'lemma/stretch ' + msg
            s.inconclusive.append((h, msg))
            log('  %s: NON-REPRODUCING %s' % (base, msg))
            if os.environ.get('VERIF_DEBUG') and r.get('script'):
                open(os.path.join(BUILD, 'nonrepro-%s-%s-%d.smt2' % (base, re.sub(r'\W', '_', ob['id']), ob['leaf'])), 'w').write(r['script'])

    def write_replay(s, h, ob, vec, why, order):
        d = os.path.join(EVDIR, 'replay')
        os.makedirs(d, exist_ok=True)
        base = h.split('::')[-1]
        fn = os.path.join(d, '%s-%s-%s-%d.json' % (s.prop, base, re.sub(r'[^\w]', '_', ob['id']), ob['leaf']))
        json.dump({'property': s.prop, 'harness': base, 'assert': ob['id'], 'leaf': ob['leaf'], 'kind': ob['kind'],
                   'inputs': [{'name': nm, 'type': lt, 'value': v, 'token': leaf_tok(v)} for (nm, lt), v in zip(order, vec)],
                   'native': why, 'criterion': 'strict-relative' if 'tiny residual' in why else ('bits' if 'bit-exact' in why else 'default'),
                   'tol': s.opts(h).get('vector_tol', 1e-6) if 'curated' in why else s.opts(h).get('replay_tol', 1e-6), 'replay_cmd': './check %s --replay %s' % (s.prop, fn)}, open(fn, 'w'), indent=1)
        return fn

    # ---------------- differential validation of the executor
    def validate(s, h, n):
        o = s.opts(h)
        fn = s.fns[h]
        names = debug_names(s.text, h)
        T_save = None
        _, order = sym_inputs(fn, names)
        import zlib
        rng = random.Random(s.seed * 7919 + zlib.crc32(h.split('::')[-1].encode()) % 100003)
        vecs = [rand_inputs(order, rng, o) for _ in range(n)]
        for fixed in o.get('vectors', []):
            vecs.append(list(fixed))
        if not order:
            vecs = vecs[:1]
        runs = run_native(s.binary, h.split('::')[-1], vecs)
        ok = 0
        covered = set()
        for vec, nat in zip(vecs, runs):
            m = Machine(s.fns, 'CONC', fuel=o.get('fuel', 400000))
            conc = [float(v) if lt in mir.FLOATS else v for v, (nm, lt) in zip(vec, order)]
            m.run(h, split_inputs(fn, conc))
            paths = m.returned + [p for p, _ in m.panicked]
            if len(paths) != 1:
                raise Inconclusive('%s: concrete run produced %d paths' % (h, len(paths)))
            mine = [e for e in paths[0].events if e[0] != 'END']
            exact = not (set(m.opaque_used) & {'sin', 'cos', 'tan', 'asin', 'acos', 'atan', 'atan2', 'exp', 'ln', 'powf', 'powi', 'hypot'})
            # f32 instantiation: libm's sinf/cosf/acosf are not the correctly rounded f64 results the executor computes
            vtol = 1e-5 if (not exact and any(lt == 'f32' for _, lt in order)) else 1e-9
            if not s.same_trace(mine, nat, exact, vtol):
                raise Inconclusive('%s: executor (concrete mode) and native build disagree on input %r:\n  executor: %r\n  native:   %r' % (h, vec, mine[:6], nat[:6]))
            for e in nat:
                if e[0] == 'COVER':
                    covered.add(e[1])
            ok += 1
            # curated boundary vectors (props.py 'vectors') also act as concrete tests of the assertions themselves: a net
            # under the solver for tolerance-edge inputs where sat-finding is hard.  Random vectors are NOT judged this way.
            if vec in [list(x) for x in o.get('vectors', [])]:
                assumed = all((e[0] != 'ASSUME' or e[1]) and (e[0] != 'ASSUMEEQ' or all(close(a, b, 1e-9) for a, b in zip(e[1], e[2])))
                              for e in nat if not (e[0] in ('ASSUME', 'ASSUMEEQ') and e[-1]))
                seen = {}
                for e in nat:
                    if e[0] == 'PANIC':
                        break
                    if e[0] in ('ASSERT', 'ASSERTEQ'):
                        k = seen.get(e[1], 0)
                        seen[e[1]] = k + 1
                        bad = (not e[2]) if e[0] == 'ASSERT' else None
                        if e[0] == 'ASSERTEQ':
                            for li, (a, b) in enumerate(zip(e[2], e[3])):
                                if not close(a, b, o.get('vector_tol', 1e-6)):
                                    bad = li
                                    break
                        if assumed and bad is not None and bad is not False:
                            ob = {'id': '%s#%d' % (e[1], k), 'leaf': 0 if bad is True else bad, 'kind': 'bool' if e[0] == 'ASSERT' else 'eq'}
                            why = 'curated boundary input %r fails the assertion natively' % (vec,)
                            rp = s.write_replay(h, ob, vec, why, order)
                            s.violations.append({'harness': h.split('::')[-1], 'id': ob['id'], 'leaf': ob['leaf'], 'replay': rp, 'why': why,
                                                 'key': (s.prop, h.split('::')[-1], e[1])})
                            log('  %s: CONCRETE COUNTEREXAMPLE %s (%s)' % (h.split('::')[-1], ob['id'], why[:120]))
                            break
        s.stats['validated'] += ok
        return covered

    def same_trace(s, mine, nat, exact, tol=1e-9):
        if len(mine) != len(nat):
            return False
        for a, b in zip(mine, nat):
            if a[0] != b[0]:
                return False
            if a[0] in ('ASSUME',):
                if bool(a[1]) != b[1]:
                    return False
            elif a[0] == 'ASSUMEEQ':
                if not all(same_leaf(x, y, exact, tol) for x, y in zip(a[1], b[1])) or not all(same_leaf(x, y, exact, tol) for x, y in zip(a[2], b[2])):
                    return False
            elif a[0] == 'ASSERT':
                if a[1] != b[1] or bool(a[2]) != b[2]:
                    return False
            elif a[0] == 'ASSERTEQ':
                if a[1] != b[1] or len(a[2]) != len(b[2]):
                    return False
                if not all(same_leaf(x, y, exact, tol) for x, y in zip(a[2], b[2])) or not all(same_leaf(x, y, exact, tol) for x, y in zip(a[3], b[3])):
                    return False
            elif a[0] == 'OUT':
                if a[1] != b[1] or not all(same_leaf(x, y, exact, tol) for x, y in zip(a[2], b[2])):
                    return False
            elif a[0] == 'COVER':
                if a[1] != b[1]:
                    return False
        return True

    def run(s, only=None):
        s.prepare()
        hs = s.harnesses
        if only:
            hs = [h for h in hs if any(x in h for x in only)]
        log('[%s] %d harnesses, MIR dump %.1fs, %d functions in dump' % (s.prop, len(hs), s.dump_s, len(s.fns)))
        nval = 3 if s.tier == 'quick' else 40
        with ThreadPoolExecutor(max_workers=s.jobs) as pool:
            for h in hs:
                T.reset()
                s.feas_cache = {}
                s.check_harness(h, pool)
                if h in s.harness_info and 'covers' in s.harness_info[h]:
                    try:
                        covered = s.validate(h, nval)
                    except Inconclusive as e:
                        s.inconclusive.append((h, str(e)))
                        log('  %s: VALIDATION FAILED %s' % (h, str(e)[:600]))
                        covered = set()
                    except (MirError, Fuel, KeyError, IndexError, ValueError, TypeError, AttributeError, ZeroDivisionError, OverflowError) as e:
                        s.inconclusive.append((h, 'concrete executor error: %s: %s' % (type(e).__name__, str(e)[:300])))
                        log('  %s: CONCRETE EXECUTOR ERROR %s %s' % (h, type(e).__name__, str(e)[:300]))
                        if os.environ.get('VERIF_DEBUG'):
                            import traceback
                            traceback.print_exc()
                        covered = set()
                    covers, o = s.pending_covers
                    for cid, pcs in covers.items():
                        s.stats['covers'] += 1
                        ok = cid in covered
                        if not ok:
                            for pc in pcs:
                                script, _, _ = solver.build_script(list(pc), o)
                                if script is None:
                                    continue
                                res, who, dt, out, att = solver.portfolio(script, [('z3', 5), ('z3-new', 10)])
                                if res == 'sat':
                                    ok = True
                                    break
                        s.harness_info[h]['covers'][cid] = ok
                        if not ok:
                            s.inconclusive.append((h, 'reachability witness %r not shown reachable (vacuity guard)' % cid))
                            log('  %s: cover %s not shown reachable' % (h, cid))
            if s.tier == 'thorough' and not os.environ.get('VERIF_NO_SECOND_LOWERING'):
                # second lowering: the same harnesses from the -Zmir-opt-level=1 dump (a differently shaped MIR of the
                # same code) must give the same verdicts.  All harnesses by default; VERIF_SECOND_LOWERING=third keeps it to a
                # third of them, rotating with the seed (the first version's setting)
                try:
                    path1, dt1 = dump_mir(s.feature, 1)
                    first_info = dict(s.harness_info)
                    s.text = open(path1).read()
                    s.fns = mir.parse_mir(s.text)
                    third = os.environ.get('VERIF_SECOND_LOWERING') == 'third'
                    sub = [h for i, h in enumerate(sorted(hs)) if (not third) or (i + s.seed) % 3 == 0]
                    before = (s.stats['obligations'], s.stats['discharged'])
                    log('[%s] second lowering (mir-opt-level=1): %d harnesses' % (s.prop, len(sub)))
                    s.phase2 = True
                    for h in sub:
                        if h not in s.fns:
                            s.inconclusive.append((h, 'harness missing from the opt-level-1 dump'))
                            continue
                        T.reset()
                        s.feas_cache = {}
                        # the executor's verdicts on this lowering are only trusted where it validates against the native
                        # build on this lowering too (concrete differential runs); otherwise the harness is skipped
                        try:
                            s.validate(h, 3)
                        except Exception as e:
                            s.stats['second_lowering_unsupported'] = s.stats.get('second_lowering_unsupported', 0) + 1
                            log('  %s: second lowering skipped (executor does not validate on the opt-level-1 MIR: %s)' % (h, str(e)[:100]))
                            continue
                        s.check_harness(h, pool)
                    s.phase2 = False
                    s.stats['second_lowering_harnesses'] = len(sub)
                    s.stats['second_lowering_obligations'] = s.stats['obligations'] - before[0]
                    s.stats['second_lowering_discharged'] = s.stats['discharged'] - before[1]
                    for h, info in first_info.items():
                        if h in s.harness_info and s.harness_info[h] is not info:
                            info['second_lowering'] = {k: s.harness_info[h].get(k) for k in ('paths', 'obligations', 'unsat', 'sat', 'unknown')}
                        s.harness_info[h] = info
                except BuildError as e:
                    s.inconclusive.append(('second-lowering', str(e)[-500:]))
        return s.finish()

    # ---------------- verdict + evidence
    def load_known(s):
        fn = os.path.join(VERIF, 'known-findings.txt')
        known = []
        if os.path.exists(fn):
            for line in open(fn):
                line = line.strip()
                if line.startswith('known:'):
                    kv = dict(x.split('=', 1) for x in line[6:].split() if '=' in x)
                    known.append((kv.get('property'), kv.get('harness'), kv.get('assert'), line))
        return known

    def finish(s):
        known = s.load_known()
        new_viol = []
        for v in s.violations:
            hit = None
            for kp, kh, ka, line in known:
                if kp == s.prop and kh == v['harness'] and ka == v['id'].split('#')[0]:
                    hit = line
            if hit:
                s.known.append((v, hit))
            else:
                new_viol.append(v)
        wall = time.time() - s.t0
        ev = {
            'property_id': s.prop, 'tier': s.tier, 'seed': s.seed, 'level': 'model_checking',
            'coverage': {
                'states': max(1, s.stats['states']), 'transitions': max(1, s.stats['transitions']),
                'traces_validated_against_impl': s.stats['validated'],
                'samples': s.samples or [{'note': 'no non-trivial obligation sampled'}],
                'obligations': s.stats['obligations'], 'discharged': s.stats['discharged'],
                'discharged_trivially_equal_terms': s.stats['trivial'], 'discharged_with_nonlinear_terms_abstracted': s.stats.get('abstract_unsat', 0), 'discharged_with_reduced_hypotheses': s.stats.get('focused_unsat', 0),
                'stretch_attempted': s.stats['stretch_attempted'], 'stretch_discharged': s.stats['stretch_discharged'],
                'paths': s.stats['paths'], 'forks': s.stats['forks'], 'forks_pruned_infeasible': s.stats['pruned'], 'mir_statements_executed': s.stats['stmts'],
                'reachability_witnesses': s.stats['covers'], 'second_lowering': {k: v for k, v in s.stats.items() if k.startswith('second_lowering')}, 'fork_feasibility_queries': s.stats['feas_queries'],
                'harnesses': {h.split('::')[-1]: {k: v for k, v in info.items() if k not in ('order',)} for h, info in s.harness_info.items()},
                'functions_encoded': sorted(s.functions), 'instantiations': sorted(s.instantiations),
                'axiom_instances': s.axiom_groups,
                'solver_queries': solver.STATS['queries'], 'solver_time_s': round(solver.STATS['time'], 2),
                'solver_results': solver.STATS['by_result'], 'solver_usage': solver.STATS['by_solver'],
                'bounds': 'all inputs symbolic over the reals (no value range); executor fuel 400000 MIR statements and 512 forks per harness (exceeding either is an error, not a pass); loops only over concrete trip counts <= 4 per dimension',
                'explanation': 'Bounded symbolic execution of the nightly MIR of /repo (generic code monomorphised at the abstract scalar R), one SMT query per (path, assertion, leaf); unsat = holds for every real input on that path.',
                'exhaustive': False,
                'inconclusive': [list(x) for x in s.inconclusive][:20],
                'known_findings_matched': [k[1] for k in s.known],
                'mir_dump_s': round(s.dump_s, 1),
            },
            'assumptions': [
                'rustc 1.97.0-nightly front end, MIR inliner and optimiser (mir-opt-level=2) preserve semantics',
                'scalar arithmetic interpreted over the real field: IEEE rounding, overflow and NaN are outside the claim',
                'opaque scalar functions (sqrt, trig, fmod, ulps_eq, relative_eq) satisfy the axiom instances counted in coverage.axiom_instances (mirsmt/axioms.py)',
                'flat-leaf memory model: repr(C) structs laid out in declaration order (checked bit-precisely by the Kani harnesses of C16)',
                'z3 4.8.12 / z3 5.1 answers are correct',
            ],
            'wall_s': round(wall, 2), 'violations': len(new_viol),
        }
        os.makedirs(EVDIR, exist_ok=True)
        validate_evidence(ev)
        json.dump(ev, open(os.path.join(EVDIR, '%s.json' % s.prop), 'w'), indent=1, default=str)
        for v, line in s.known:
            rest = re.sub(r'^known:\s*property=\S+\s*', '', line)
            print('KNOWN-FINDING: property=%s %s' % (s.prop, rest))
        if new_viol:
            seen = set()
            for v in new_viol:
                if v['key'] in seen:
                    continue
                seen.add(v['key'])
                print('VIOLATION property=%s replay=%s' % (s.prop, v['replay']))
            return 1
        if s.inconclusive:
            for h, why in s.inconclusive[:10]:
                print('INCONCLUSIVE %s: %s' % (h.split('::')[-1], why[:300]))
            return 2
        print('OK property=%s tier=%s obligations=%d discharged=%d paths=%d validated_runs=%d wall=%.1fs' % (
            s.prop, s.tier, s.stats['obligations'], s.stats['discharged'], s.stats['paths'], s.stats['validated'], wall))
        return 0


def validate_evidence(ev):
    schema_path = '/root/.vp/EVIDENCE.schema.json'
    try:
        import jsonschema
        jsonschema.validate(json.loads(json.dumps(ev, default=str)), json.load(open(schema_path)))
    except ImportError:
        for k in ('property_id', 'tier', 'seed', 'level', 'coverage', 'wall_s'):
            assert k in ev
        c = ev['coverage']
        assert c['states'] >= 1 and c['transitions'] >= 1 and len(c['samples']) >= 1


def replay_file(prop, path):
    d = json.load(open(path))
    feature = prop.lower()
    mir.load_structs(sorted(glob.glob(os.path.join(REPO, 'src', '*.rs'))) + [os.path.join(HDIR, 'src', 'lib.rs'), os.path.join(HDIR, 'src', 'r32.rs')])
    rc = 0
    for release in (False, True):
        binary = build_native(feature, release)
        vec = [x['value'] for x in d['inputs']]
        runs = run_native(binary, d['harness'], [vec])
        print('--- native %s build, harness %s, inputs %s' % ('release' if release else 'dev', d['harness'], {x['name']: x['value'] for x in d['inputs']}))
        want_id, want_k = d['assert'].rsplit('#', 1)
        seen = {}
        lemma_k = {}
        failed = False
        for e in runs[0]:
            print('   ', e)
            if e[0] in ('ASSUME', 'ASSUMEEQ') and e[-1]:
                # precondition of a lemma application (an obligation, see replay_model0)
                k = lemma_k.get(e[-1], 0)
                lemma_k[e[-1]] = k + 1
                if want_id == 'apply:%s:pre' % e[-1] and k == int(want_k):
                    failed = (not e[1]) if e[0] == 'ASSUME' else not close(e[1][d['leaf']], e[2][d['leaf']], d.get('tol', 1e-6))
            if e[0] in ('ASSERT', 'ASSERTEQ'):
                k = seen.get(e[1], 0)
                seen[e[1]] = k + 1
                if e[1] == want_id and k == int(want_k):
                    if e[0] == 'ASSERT':
                        failed = not e[2]
                    else:
                        x, y = e[2][d['leaf']], e[3][d['leaf']]
                        if d.get('criterion') == 'strict-relative':
                            failed = not ((x == y) or (isinstance(x, float) and isinstance(y, float) and x != x and y != y))
                        elif d.get('criterion') == 'bits':
                            failed = not same_bits(x, y)
                        else:
                            failed = not close(x, y, d.get('tol', 1e-6))
            if e[0] == 'PANIC' and d['kind'] == 'nopanic':
                failed = True
        print('    => assertion %s leaf %d %s' % (d['assert'], d['leaf'], 'FAILS (violation reproduces)' if failed else 'holds'))
        if failed:
            rc = 1
    return rc
