"""Parser for the subset of rustc's `-Zunpretty=mir` text that the harness crate produces,
plus the flat-leaf type model (struct field lists are re-read from source on every run)."""
import re
import glob
import os
from fractions import Fraction

PRIMS = {'f64', 'f32', 'bool', 'usize', 'isize', 'u8', 'u16', 'u32', 'u64', 'u128', 'i8', 'i16', 'i32', 'i64', 'i128', 'char'}
INT_BITS = {'usize': 64, 'isize': 64, 'u8': 8, 'u16': 16, 'u32': 32, 'u64': 64, 'u128': 128, 'i8': 8, 'i16': 16, 'i32': 32, 'i64': 64, 'i128': 128, 'char': 32}
FLOATS = {'f64', 'f32'}


class MirError(Exception):
    pass


def split_top(s, sep=','):
    out, depth, cur, i, n = [], 0, [], 0, len(s)
    instr = False
    while i < n:
        c = s[i]
        if instr:
            cur.append(c)
            if c == '\\':
                i += 1
                cur.append(s[i])
            elif c == '"':
                instr = False
            i += 1
            continue
        if c == '"':
            instr = True
        elif c in '<([{':
            depth += 1
        elif c in '>)]}':
            if c == '>' and i > 0 and s[i - 1] in '-=':
                pass
            else:
                depth -= 1
        if c == sep and depth == 0:
            out.append(''.join(cur).strip())
            cur = []
        else:
            cur.append(c)
        i += 1
    t = ''.join(cur).strip()
    if t:
        out.append(t)
    return out


def match_paren(s, i):
    o = s[i]
    c = {'(': ')', '[': ']', '<': '>', '{': '}'}[o]
    d = 0
    for j in range(i, len(s)):
        if s[j] == o:
            d += 1
        elif s[j] == c:
            if c == '>' and s[j - 1] in '-=':
                continue
            d -= 1
            if d == 0:
                return j
    raise MirError('unbalanced ' + s)


# ----------------------------------------------------------------------------- types
CLOSURES = {}  # closure type string -> leaf counts of the captured upvars (learnt from the aggregate that builds it)
STRUCTS = {}   # last path segment -> (generic params, [(field name, field type)])
BUILTIN_STRUCTS = {
    'NonNull': (['T'], [('pointer', '*const T')]),
    'MaybeUninit': (['T'], [('value', 'T')]),
    'ManuallyDrop': (['T'], [('value', 'MaybeDangling<T>')]),
    'MaybeDangling': (['T'], [('0', 'T')]),
    'NeverShortCircuit': (['T'], [('0', 'T')]),
    'NeverShortCircuitResidual': ([], []),      # uninhabited: no leaves
    'Range': (['T'], [('start', 'T'), ('end', 'T')]),
    'RangeInclusive': (['T'], [('start', 'T'), ('end', 'T'), ('exhausted', 'bool')]),
    'RangeTo': (['T'], [('end', 'T')]),
    'RangeFrom': (['T'], [('start', 'T')]),
    'RangeToInclusive': (['T'], [('end', 'T')]),
    'Iter': (['T'], [('ptr', 'NonNull<T>'), ('end_or_len', '*const T'), ('_marker', '()')]),
    'IterMut': (['T'], [('ptr', 'NonNull<T>'), ('end_or_len', '*mut T'), ('_marker', '()')]),
    'Enumerate': (['I'], [('iter', 'I'), ('count', 'usize')]),
    'Rev': (['I'], [('iter', 'I')]),
    'Zip': (['A', 'B'], [('a', 'A'), ('b', 'B'), ('index', 'usize'), ('len', 'usize'), ('a_len', 'usize')]),
    'Map': (['I', 'F'], [('iter', 'I'), ('f', 'F')]),
    'Filter': (['I', 'P'], [('iter', 'I'), ('predicate', 'P')]),
    'Cloned': (['I'], [('it', 'I')]),
    'Take': (['I'], [('iter', 'I'), ('n', 'usize')]),
    'Skip': (['I'], [('iter', 'I'), ('n', 'usize')]),
    'StepBy': (['I'], [('iter', 'I'), ('step_minus_one', 'usize'), ('first_take', 'bool')]),
    'TakeWhile': (['I', 'P'], [('iter', 'I'), ('flag', 'bool'), ('predicate', 'P')]),
    'SkipWhile': (['I', 'P'], [('iter', 'I'), ('flag', 'bool'), ('predicate', 'P')]),
    'Chain': (['A', 'B'], [('a', 'Option<A>'), ('b', 'Option<B>')]),
    'Fuse': (['I'], [('iter', 'Option<I>')]),
    'Peekable': (['I'], [('iter', 'I'), ('peeked', 'Option<Option<&usize>>')]),
    'Copied': (['I'], [('it', 'I')]),
    'IntoIter': (['T', 'N'], [('inner', 'ManuallyDrop<PolymorphicIter<[MaybeUninit<T>; N]>>')]),
    'PolymorphicIter': (['T'], [('alive', 'IndexRange'), ('data', 'T')]),
    'IndexRange': ([], [('start', 'usize'), ('end', 'usize')]),
    'Wrapping': (['T'], [('0', 'T')]),
    'Ulps': (['A'], [('epsilon', 'R'), ('max_ulps', 'u32')]),
    'Relative': (['A'], [('epsilon', 'R'), ('max_relative', 'R')]),
    'AbsDiff': (['A'], [('epsilon', 'R')]),
    'Alignment': ([], [('0', 'usize')]),
    'Layout': ([], [('size', 'usize'), ('align', 'usize')]),
}
ENUM1 = {'Ordering', 'FpCategory'}   # field-less enums: one leaf


def load_structs(paths):
    """(Re)read `pub struct` definitions from source files."""
    STRUCTS.clear()
    STRUCTS.update(BUILTIN_STRUCTS)
    for path in paths:
        src = open(path).read()
        src = re.sub(r'//[^\n]*', '', src)
        for m in re.finditer(r'\bpub struct (\w+)\s*(<[^{(;]*?>)?\s*(\{|\()', src):
            name = m.group(1)
            params = []
            if m.group(2):
                for p in split_top(m.group(2)[1:-1]):
                    p = p.split(':')[0].strip()
                    if p.startswith("'"):
                        continue
                    params.append(p)
            start = m.end() - 1
            end = match_paren(src, start)
            body = src[start + 1:end]
            fields = []
            if m.group(3) == '{':
                for f in split_top(body):
                    f = re.sub(r'#\[[^\]]*\]', '', f).strip()
                    if not f:
                        continue
                    mm = re.match(r'(?:pub(?:\([^)]*\))?\s+)?(\w+)\s*:\s*(.*)$', f, re.S)
                    if not mm:
                        raise MirError('cannot parse field %r of %s' % (f, name))
                    fields.append((mm.group(1), ' '.join(mm.group(2).split())))
            else:
                for i, f in enumerate(split_top(body)):
                    f = re.sub(r'#\[[^\]]*\]', '', f).strip()
                    f = re.sub(r'^pub(\([^)]*\))?\s+', '', f)
                    fields.append((str(i), ' '.join(f.split())))
            STRUCTS[name] = (params, fields)


_norm_cache = {}


def norm_ty(t):
    r = _norm_cache.get(t)
    if r is not None:
        return r
    s = t.strip()
    s = re.sub(r"&'\w+ ", '&', s)
    s = re.sub(r"'\w+,\s*", '', s)
    s = re.sub(r"<'\w+>", '', s)
    _norm_cache[t] = s
    return s


def ty_split_adt(t):
    """'a::b::Name<X, Y>' -> ('Name', [X, Y]); also handles 'Name::<X>'."""
    i = t.find('<')
    if i < 0:
        return t.split('::')[-1], []
    if not t.endswith('>'):
        return t, []
    head = t[:i]
    if head.endswith('::'):
        head = head[:-2]
    args = split_top(t[i + 1:-1])
    return head.split('::')[-1], args


def subst(t, env):
    if not env:
        return t
    def rep(m):
        w = m.group(0)
        return env.get(w, w)
    return re.sub(r'\b[A-Za-z_]\w*\b(?:::Scalar)?', lambda m: _subst_word(m.group(0), env), t)


def _subst_word(w, env):
    if w.endswith('::Scalar'):
        base = w[:-8]
        if base in env:
            return scalar_of(env[base])
        return w
    return env.get(w, w)


def scalar_of(t):
    """V::Scalar for the cgmath vector-like type t."""
    name, args = ty_split_adt(norm_ty(t))
    if args:
        return args[0]
    raise MirError('no scalar for ' + t)


def is_ptr(t):
    return t.startswith('&') or t.startswith('*const ') or t.startswith('*mut ')


def pointee(t):
    t = norm_ty(t)
    for p in ('&mut ', '&', '*const ', '*mut '):
        if t.startswith(p):
            return t[len(p):].strip()
    name, args = ty_split_adt(t)
    if name == 'NonNull':
        return args[0]
    raise MirError('not a pointer type ' + t)


def is_unsized(t):
    if (t.startswith('[') and t.endswith(']') and array_parts(t)[1] is None) or t == 'str':
        return True
    if '<' in t and not t.startswith(('&', '*', '(', '[')):
        name, args = ty_split_adt(t)
        if name in STRUCTS and name not in ('NonNull',):
            try:
                fts = field_types(t)
            except Exception:
                return False
            return bool(fts) and is_unsized(norm_ty(fts[-1]))
    return False


def unsized_tail_len(src_pointee, dst_pointee):
    """Length metadata produced by an Unsize coercion from src_pointee to dst_pointee."""
    if src_pointee.startswith('['):
        return array_parts(src_pointee)[1]
    fs, fd = field_types(src_pointee), field_types(dst_pointee)
    return unsized_tail_len(norm_ty(fs[-1]), norm_ty(fd[-1]))


_nl = {}


def nleaves(t):
    t = norm_ty(t)
    r = _nl.get(t)
    if r is None:
        r = _nleaves(t)
        _nl[t] = r
    return r


def array_parts(t):
    inner = t[1:-1]
    parts = split_top(inner, ';')
    if len(parts) == 2:
        n = parts[1].strip()
        n = re.sub(r'_usize$', '', n)
        return parts[0].strip(), int(n)
    return parts[0].strip(), None


def is_closure_ty(t):
    """the type IS a closure (not merely a generic type with a closure parameter, such as Filter<I, {closure@..}>)"""
    return t.startswith('{closure') or t.startswith('[closure') or bool(re.match(r'^[\w:]+::\{closure#\d+\}$', t))


def _nleaves(t):
    if t in PRIMS:
        return 1
    if t in ('()', '!'):
        return 0
    if is_ptr(t):
        return 2 if is_unsized(pointee(t)) else 1
    if t.startswith('['):
        et, n = array_parts(t)
        if n is None:
            raise MirError('unsized ' + t)
        return n * nleaves(et)
    if t.startswith('('):
        return sum(nleaves(x) for x in split_top(t[1:-1]))
    if t.startswith('fn(') or t.startswith('for<') or t.startswith('unsafe fn') or t.startswith('extern '):
        return 1
    if is_closure_ty(t):
        return sum(CLOSURES.get(t, []))
    if t.startswith('fn item') or t.startswith('{'):
        return 0
    name, args = ty_split_adt(t)
    if name == 'Option':
        return 1 + nleaves(args[0])
    if name == 'ControlFlow' and len(args) == 1:
        args = [args[0], '()']          # ControlFlow<B, C = ()>
    if name in ('Result', 'ControlFlow'):
        return 1 + max(nleaves(args[0]), nleaves(args[1]))
    if name == 'Infallible':
        return 0
    if name in ENUM1:
        return 1
    if name == 'PhantomData':
        return 0
    if name in STRUCTS:
        return sum(nleaves(f) for f in field_types(t))
    raise MirError('unknown type ' + t)


def field_types(t):
    t = norm_ty(t)
    if t.startswith('('):
        return split_top(t[1:-1])
    name, args = ty_split_adt(t)
    if name == 'Option':
        return ['isize', args[0]]
    if name == 'ControlFlow' and len(args) == 1:
        args = [args[0], '()']
    if name in ('Result', 'ControlFlow'):
        return ['isize', args[0] if nleaves(args[0]) >= nleaves(args[1]) else args[1]]
    params, fts = STRUCTS[name]
    env = dict(zip(params, args))
    return [subst(ft, env) for _, ft in fts]


def field_off(t, k):
    if is_closure_ty(norm_ty(t)):
        return sum(CLOSURES.get(norm_ty(t), [])[:k])
    fs = field_types(t)
    return sum(nleaves(f) for f in fs[:k])


def leaf_types(t):
    """Flat list of primitive/pointer leaf types of t."""
    t = norm_ty(t)
    if t in PRIMS:
        return [t]
    if t in ('()', '!'):
        return []
    if is_ptr(t):
        return [t, 'usize'] if is_unsized(pointee(t)) else [t]
    if t.startswith('['):
        et, n = array_parts(t)
        return leaf_types(et) * n
    if t.startswith('('):
        out = []
        for x in split_top(t[1:-1]):
            out += leaf_types(x)
        return out
    name, args = ty_split_adt(t)
    if name == 'Option':
        return ['isize'] + leaf_types(args[0])
    if name in ENUM1:
        return ['i8']
    if name == 'PhantomData' or is_closure_ty(t):
        return []
    if name in STRUCTS:
        out = []
        for f in field_types(t):
            out += leaf_types(f)
        return out
    if t.startswith('fn(') or t.startswith('for<'):
        return [t]
    raise MirError('unknown type ' + t)


# ----------------------------------------------------------------------------- functions
class Fn:
    __slots__ = ('name', 'locals', 'blocks', 'params', 'scopes', 'nlines', 'parsed', 'doomed', 'generic')


def parse_mir(text):
    fns = {}
    chunks = re.split(r'\n(?=fn |const |static |alloc\d+ \()', text)
    for chunk in chunks:
        m = re.match(r'fn ([^\n]+?)\((.*?)\) -> (.*?) \{\n', chunk)
        if not m:
            mc = re.match(r'(?:const|static(?: mut)?) ([^\n]+?): (.*?) = \{\n', chunk)
            if not mc:
                continue
            m = re.match(r'(.*)()()', mc.group(1))
            class _M:
                def __init__(s, a, b, c):
                    s.g = (None, a, b, c)
                def group(s, i):
                    return s.g[i]
            m = _M(mc.group(1), '', mc.group(2))
        f = Fn()
        f.name = m.group(1).strip()
        f.locals = {}
        f.blocks = {}
        f.params = []
        f.parsed = {}
        f.doomed = None
        f.generic = False
        for p in split_top(m.group(2)):
            mm = re.match(r'_(\d+): (.*)$', p, re.S)
            if not mm:
                continue
            f.params.append(int(mm.group(1)))
            f.locals[int(mm.group(1))] = norm_ty(mm.group(2))
        f.locals[0] = norm_ty(m.group(3))
        for mm in re.finditer(r'^\s+let (?:mut )?_(\d+): (.*);$', chunk, re.M):
            f.locals[int(mm.group(1))] = norm_ty(mm.group(2))
        f.scopes = sorted(set(re.findall(r'scope \d+ \(inlined (?:#\[track_caller\] )?(.*?)\) \{', chunk)))
        cur = None
        nl = 0
        for line in chunk.split('\n'):
            s = line.strip()
            mm = re.match(r'bb(\d+)(?: \(cleanup\))?: \{$', s)
            if mm:
                cur = int(mm.group(1))
                f.blocks[cur] = []
                continue
            if cur is None:
                continue
            if s == '}':
                cur = None
                continue
            if not s or s.startswith('//'):
                continue
            s = re.sub(r'\s*// .*$', '', s)
            if s.endswith(';'):
                s = s[:-1]
            f.blocks[cur].append(s)
            nl += 1
        f.nlines = nl
        fns[f.name] = f
    return fns


# ----------------------------------------------------------------------------- places / operands
def parse_place(s):
    """-> (local, (proj, ...)); proj: ('deref',) | ('field', k, ty) | ('cidx', i, fromend) |
    ('idx', local) | ('down', variant) | ('sub', from, to, fromend)"""
    s = s.strip()
    if s.startswith('('):
        j = match_paren(s, 0)
        inner = s[1:j].strip()
        rest = s[j + 1:]
        if inner.startswith('*'):
            loc, pr = parse_place(inner[1:])
            pr = pr + [('deref',)]
        else:
            depth = 0
            pos = None
            for i, c in enumerate(inner):
                if c in '([<':
                    depth += 1
                elif c in ')]>':
                    if c == '>' and inner[i - 1] in '-=':
                        continue
                    depth -= 1
                elif c == '.' and depth == 0:
                    mm = re.match(r'\.(\d+): ', inner[i:])
                    if mm:
                        pos = (i, mm)
            m = re.match(r'^(.*) as (\w+)$', inner, re.S)
            if pos is not None:
                i, mm = pos
                loc, pr = parse_place(inner[:i])
                pr = pr + [('field', int(mm.group(1)), norm_ty(inner[i + len(mm.group(0)):]))]
            elif m:
                loc, pr = parse_place(m.group(1))
                pr = pr + [('down', m.group(2))]
            else:
                raise MirError('place? ' + s)
    elif s.startswith('*'):
        loc, pr = parse_place(s[1:])
        return loc, pr + [('deref',)]
    else:
        m = re.match(r'^_(\d+)', s)
        if not m:
            raise MirError('place? ' + s)
        loc = int(m.group(1))
        pr = []
        rest = s[m.end():]
    while rest:
        if rest[0] != '[':
            raise MirError('place rest? ' + s)
        j = match_paren(rest, 0)
        idx = rest[1:j]
        rest = rest[j + 1:]
        m = re.match(r'^(\d+) of (\d+)$', idx)
        if m:
            pr.append(('cidx', int(m.group(1)), False))
            continue
        m = re.match(r'^-(\d+) of (\d+)$', idx)
        if m:
            pr.append(('cidx', int(m.group(1)), True))
            continue
        m = re.match(r'^_(\d+)$', idx)
        if m:
            pr.append(('idx', int(m.group(1))))
            continue
        m = re.match(r'^(\d*):(-?)(\d*)$', idx)
        if m:
            pr.append(('sub', int(m.group(1) or 0), int(m.group(3) or 0), m.group(2) == '-'))
            continue
        raise MirError('index? ' + idx)
    return loc, pr


def parse_operand(o):
    o = o.strip()
    if o.startswith('no_retag '):
        o = o[9:].strip()
    if o.startswith('copy ') or o.startswith('move '):
        loc, pr = parse_place(o[5:])
        return ('place', loc, tuple(pr))
    if o.startswith('const '):
        return ('const', o[6:].strip())
    raise MirError('operand? ' + o)


BINOPS = {'Add', 'Sub', 'Mul', 'Div', 'Rem', 'Eq', 'Ne', 'Lt', 'Le', 'Gt', 'Ge', 'AddUnchecked', 'SubUnchecked', 'MulUnchecked',
          'Offset', 'BitAnd', 'BitOr', 'BitXor', 'Shl', 'Shr', 'ShlUnchecked', 'ShrUnchecked', 'Cmp',
          'AddWithOverflow', 'SubWithOverflow', 'MulWithOverflow'}
UNOPS = {'Neg', 'Not', 'PtrMetadata'}


def parse_rvalue(rv):
    rv = rv.strip()
    if rv.startswith('no_retag '):
        rv = rv[9:].strip()
    m = re.match(r'^(\w+)\((.*)\)$', rv, re.S)
    if m and m.group(1) in BINOPS:
        a, b = split_top(m.group(2))
        return ('bin', m.group(1), parse_operand(a), parse_operand(b))
    if m and m.group(1) in UNOPS:
        return ('un', m.group(1), parse_operand(m.group(2)))
    if m and m.group(1) == 'discriminant':
        loc, pr = parse_place(m.group(2))
        return ('discr', loc, tuple(pr))
    if m and m.group(1) == 'Len':
        loc, pr = parse_place(m.group(2))
        return ('len', loc, tuple(pr))
    m = re.match(r'^(&raw const |&raw mut |&mut |&)(.*)$', rv, re.S)
    if m and not rv.startswith('&&'):
        loc, pr = parse_place(m.group(2))
        return ('ref', loc, tuple(pr))
    m = re.match(r'^(.*) as (.*?) \((\w+)(?:\(.*\))?\)$', rv, re.S)
    if m and (rv.startswith('copy ') or rv.startswith('move ') or rv.startswith('const ')):
        return ('cast', m.group(3), parse_operand(m.group(1)), norm_ty(m.group(2)))
    m = re.match(r'^(\*const|\*mut|&|&mut) (.*) from \((.*)\)$', rv, re.S)
    if m:
        # raw pointer / reference built from (data pointer, metadata)
        return ('agg', [parse_operand(x) for x in split_top(m.group(3))])
    if rv.startswith('copy ') or rv.startswith('move ') or rv.startswith('const '):
        return ('use', parse_operand(rv))
    if rv.startswith('['):
        j = match_paren(rv, 0)
        inner = rv[1:j]
        parts = split_top(inner, ';')
        if len(parts) == 2:
            n = re.sub(r'^const ', '', parts[1].strip())
            n = re.sub(r'_usize$', '', n)
            return ('repeat', parse_operand(parts[0]), int(n))
        return ('agg', [parse_operand(x) for x in split_top(inner)])
    if rv.startswith('('):
        j = match_paren(rv, 0)
        return ('agg', [parse_operand(x) for x in split_top(rv[1:j])])
    m = re.match(r'^((?:[\w:]|<[^(]*?>)+?)::(Some|None|Ok|Err|Continue|Break)(?:\((.*)\))?$', rv, re.S)
    if m and re.match(r'^(std::option::|core::option::)?Option(::<.*>)?$|^(std::result::|core::result::)?Result(::<.*>)?$|^(std::ops::|core::ops::)?ControlFlow(::<.*>)?$', m.group(1), re.S):
        v = m.group(2)
        ops = [parse_operand(x) for x in split_top(m.group(3))] if m.group(3) else []
        return ('variant', {'None': 0, 'Some': 1, 'Ok': 0, 'Err': 1, 'Continue': 0, 'Break': 1}[v], ops, m.group(1))
    m = re.match(r'^([\w:]+(?:::<.*?>)?) \{ (.*) \}$', rv, re.S)
    if m:
        ops = []
        for x in split_top(m.group(2)):
            ops.append(parse_operand(x.split(':', 1)[1]))
        return ('agg', ops)
    m = re.match(r'^([\w:]+(?:::<.*>)?)\((.*)\)$', rv, re.S)
    if m:
        return ('agg', [parse_operand(x) for x in split_top(m.group(2))])
    m = re.match(r'^(\{closure@[^}]*\})(?: \{ (.*) \})?$', rv, re.S)
    if m:
        ops = []
        if m.group(2):
            for x in split_top(m.group(2)):
                ops.append(parse_operand(x.split(':', 1)[1]))
        return ('closure', norm_ty(m.group(1)), ops)
    raise MirError('rvalue? ' + rv)


def parse_stmt(st):
    if st.startswith(('StorageLive', 'StorageDead', 'nop', 'Retag', 'FakeRead', 'PlaceMention', 'Coverage', 'ConstEvalCounter',
                      'AscribeUserType', 'BackwardIncompatibleDropHint', 'Deinit', 'assume(')):
        return ('nop',)
    m = re.match(r'^copy_nonoverlapping\(dst = (.*), src = (.*), count = (.*)\)$', st)
    if m:
        return ('cno', parse_operand(m.group(1)), parse_operand(m.group(2)), parse_operand(m.group(3)))
    m = re.match(r'^discriminant\((.*)\) = (\d+)$', st)
    if m:
        loc, pr = parse_place(m.group(1))
        return ('setdiscr', loc, tuple(pr), int(m.group(2)))
    # find ' = ' at depth 0 outside strings
    i = st.find(' = ')
    if i < 0:
        raise MirError('statement? ' + st)
    loc, pr = parse_place(st[:i])
    return ('assign', loc, tuple(pr), parse_rvalue(st[i + 3:]))


def parse_term(t):
    if t == 'return':
        return ('return',)
    if t == 'unreachable':
        return ('unreachable',)
    if t.startswith('resume') or t.startswith('abort') or t.startswith('terminate'):
        return ('panic', t)
    m = re.match(r'^goto -> bb(\d+)$', t)
    if m:
        return ('goto', int(m.group(1)))
    m = re.match(r'^switchInt\((.*)\) -> \[(.*)\]$', t, re.S)
    if m:
        tg = []
        other = None
        for x in split_top(m.group(2)):
            k, v = x.split(': ')
            if k == 'otherwise':
                other = int(v[2:])
            else:
                tg.append((int(k), int(v[2:])))
        return ('switch', parse_operand(m.group(1)), tg, other)
    m = re.match(r'^assert\((!?)(.*?), "(.*)\) -> \[success: bb(\d+)', t, re.S)
    if m:
        return ('assert', parse_operand(m.group(2)), m.group(1) == '', int(m.group(4)), m.group(3)[:60])
    m = re.match(r'^drop\((.*)\) -> \[return: bb(\d+)', t)
    if m:
        return ('goto', int(m.group(2)))
    i = t.rfind(') -> ')
    if i > 0:
        head, tail = t[:i + 1], t[i + 5:]
        # the argument list is the last balanced (...) of head; scan backwards, skipping string literals
        depth = 0
        j = len(head) - 1
        instr = False
        while j >= 0:
            c = head[j]
            if instr:
                if c == '"' and (j == 0 or head[j - 1] != '\\'):
                    instr = False
            elif c == '"':
                instr = True
            elif c == ')':
                depth += 1
            elif c == '(':
                depth -= 1
                if depth == 0:
                    break
            j -= 1
        if j > 0:
            callee = head[:j]
            argtxt = head[j + 1:-1]
            dst = None
            k = callee.find(' = ')
            if k >= 0 and re.match(r'^[\(\*_]', callee) and '<' not in callee[:k]:
                loc, pr = parse_place(callee[:k])
                dst = (loc, tuple(pr))
                callee = callee[k + 3:]
            mt = re.search(r'return: bb(\d+)', tail)
            args = [parse_operand(x) for x in split_top(argtxt)]
            return ('call', dst, callee.strip(), args, int(mt.group(1)) if mt else None)
    raise MirError('terminator? ' + t)


def find_doomed(f):
    """Blocks from which `return` is unreachable (panic formatting etc.)."""
    succ = {}
    for b, st in f.blocks.items():
        t = st[-1] if st else ''
        tail = t.split('->', 1)[1] if '->' in t else ''
        s = [int(x) for x in re.findall(r'bb(\d+)', tail)]
        mu = re.search(r'unwind: bb(\d+)', tail)
        if mu:
            u = int(mu.group(1))
            s = [x for x in s if x != u]
        succ[b] = s
    good = {b for b, st in f.blocks.items() if st and st[-1] == 'return'}
    ch = True
    while ch:
        ch = False
        for b in succ:
            if b not in good and any(x in good for x in succ[b]):
                good.add(b)
                ch = True
    return set(f.blocks) - good
