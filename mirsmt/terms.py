"""Hash-consed terms over Real / Int / Bool, light simplification, SMT-LIB2 printing.

A value in the executor is either concrete (bool, int, Fraction, float) or a term handle
('t', index).  Opaque scalar functions (sqrt, sin, ...) are applications keyed by their
hash-consed argument, so recomputing the same expression in a harness meets the code's value.
"""
from fractions import Fraction
import math

BOOL_OPS = {'fp.lt', 'fp.leq', 'fp.gt', 'fp.geq', 'fp.eq', 'fp.isNaN', 'fp.isInfinite', '<', '<=', '>', '>=', '=', '!=', 'not', 'and', 'or', '=>', 'bvar', 'pred'}


class T:
    tab = {}
    lst = []
    sort = []

    @staticmethod
    def reset():
        T.tab = {}
        T.lst = []
        T.sort = []

    @staticmethod
    def mk(sort, *k):
        h = T.tab.get(k)
        if h is not None:
            return h
        i = len(T.lst)
        T.lst.append(k)
        T.sort.append(sort)
        h = ('t', i)
        T.tab[k] = h
        return h


def is_sym(x):
    return type(x) is tuple and len(x) == 2 and x[0] == 't'


def node(x):
    return T.lst[x[1]]


def sort_of(x):
    if is_sym(x):
        return T.sort[x[1]]
    if isinstance(x, bool):
        return 'Bool'
    if isinstance(x, int):
        return 'Int'
    return 'Real'


def var(name, sort='Real'):
    return T.mk(sort, 'var', name, sort)


_fresh = [0]


def fresh(p, sort='Real'):
    _fresh[0] += 1
    return var('%s!%d' % (p, _fresh[0]), sort)


def _num(x):
    return isinstance(x, (int, Fraction)) and not isinstance(x, bool)


def to_real(x):
    if is_sym(x):
        if sort_of(x) == 'Int':
            return T.mk('Real', 'to_real', x)
        return x
    if isinstance(x, float):
        return x
    return Fraction(x)


def arith(op, a, b, sort='Real'):
    """Field / ring operation in exact arithmetic (sort Real or Int)."""
    sa, sb = is_sym(a), is_sym(b)
    if not sa and not sb:
        if sort == 'Real':
            a = Fraction(a)
            b = Fraction(b)
        if op == '+':
            return a + b
        if op == '-':
            return a - b
        if op == '*':
            return a * b
        if op == '/':
            if b == 0:
                return T.mk(sort, '/', a, b)
            if sort == 'Int':
                raise ValueError('int division is not a ring op')
            return a / b
    if op == '*':
        if (not sa and a == 0) or (not sb and b == 0):
            return Fraction(0) if sort == 'Real' else 0
        if not sa and a == 1:
            return b
        if not sb and b == 1:
            return a
        if not sa and a == -1:
            return neg(b, sort)
        if not sb and b == -1:
            return neg(a, sort)
    if op == '+':
        if not sa and a == 0:
            return b
        if not sb and b == 0:
            return a
    if op == '-':
        if not sb and b == 0:
            return a
        if not sa and a == 0:
            return neg(b, sort)
        if a == b:
            return Fraction(0) if sort == 'Real' else 0
    if op == '/':
        if not sb and b == 1:
            return a
        if not sa and a == 0 and not (not sb and b == 0):
            # 0/x: keep symbolic unless x is a non-zero constant (x might be 0)
            if not sb:
                return Fraction(0)
    return T.mk(sort, op, a, b)


def neg(a, sort='Real'):
    if not is_sym(a):
        return -a
    k = node(a)
    if k[0] == 'neg':
        return k[1]
    return T.mk(sort, 'neg', a)


def cmp(op, a, b):
    if not is_sym(a) and not is_sym(b):
        return {'<': a < b, '<=': a <= b, '>': a > b, '>=': a >= b, '=': a == b, '!=': a != b}[op]
    if a == b:
        return op in ('<=', '>=', '=')
    return T.mk('Bool', op, a, b)


def bnot(a):
    if isinstance(a, bool):
        return not a
    if not is_sym(a):
        return not a
    k = node(a)
    if k[0] == 'not':
        return k[1]
    return T.mk('Bool', 'not', a)


def band(a, b):
    if a is True:
        return b
    if b is True:
        return a
    if a is False or b is False:
        return False
    return T.mk('Bool', 'and', a, b)


def bor(a, b):
    if a is False:
        return b
    if b is False:
        return a
    if a is True or b is True:
        return True
    return T.mk('Bool', 'or', a, b)


def implies(a, b):
    return bor(bnot(a), b)


def conj(xs):
    r = True
    for x in xs:
        r = band(r, x)
    return r


def disj(xs):
    r = False
    for x in xs:
        r = bor(r, x)
    return r


def ite(c, a, b, sort='Real'):
    if c is True:
        return a
    if c is False:
        return b
    if a == b:
        return a
    return T.mk(sort, 'ite', c, a, b)


def app(fname, sort, *args):
    """Uninterpreted / opaque function application."""
    return T.mk(sort, 'app', fname, *args)


def num_smt(x):
    if isinstance(x, bool):
        return 'true' if x else 'false'
    if isinstance(x, int):
        return str(x) if x >= 0 else '(- %d)' % (-x)
    if isinstance(x, float):
        x = Fraction(x)
    x = Fraction(x)
    s = '%d.0' % abs(x.numerator) if x.denominator == 1 else '(/ %d.0 %d.0)' % (abs(x.numerator), x.denominator)
    return s if x >= 0 else '(- %s)' % s


FPS = {'F64': (11, 53), 'F32': (8, 24)}


def coerce(x, want):
    """SMT literal for a concrete x in a position of sort `want`."""
    if isinstance(x, bool):
        return 'true' if x else 'false'
    if want in FPS:
        eb, sb = FPS[want]
        x = float(x)
        if x != x:
            return '(_ NaN %d %d)' % (eb, sb)
        if x in (float('inf'), float('-inf')):
            return '(_ %soo %d %d)' % ('+' if x > 0 else '-', eb, sb)
        if x == 0:
            import math as _m
            return '(_ %szero %d %d)' % ('-' if _m.copysign(1.0, x) < 0 else '+', eb, sb)
        return '((_ to_fp %d %d) RNE %s)' % (eb, sb, num_smt(Fraction(x)))
    if want == 'Int':
        if isinstance(x, Fraction):
            assert x.denominator == 1
            x = int(x)
        return num_smt(int(x))
    return num_smt(Fraction(x))


class Printer:
    """Prints a set of terms as define-funs with sharing."""

    def __init__(self, abstract_nonlinear=False):
        self.abstract_nonlinear = abstract_nonlinear
        self.abstracted = 0
        self.nl = []
        self.memo = {}
        self.out = []
        self.vars = {}
        self.funs = {}
        self.apps = []

    def p(self, x, want=None):
        if not is_sym(x):
            return coerce(x, want or sort_of(x))
        i = x[1]
        m = self.memo.get(i)
        if m is not None:
            return m
        k = T.lst[i]
        s = T.sort[i]
        if k[0] == 'var':
            nm = '|%s|' % k[1]
            self.out.append('(declare-const %s %s)' % (nm, '(_ FloatingPoint %d %d)' % FPS[k[2]] if k[2] in FPS else k[2]))
            self.vars[k[1]] = (x, k[2])
            self.memo[i] = nm
            return nm
        if k[0] == 'app':
            # opaque application: printed as a constant (Ackermannised; congruence comes from axioms.py)
            nm = '|%s!%d|' % (k[1], i)
            self.out.append('(declare-const %s %s)' % (nm, '(_ FloatingPoint %d %d)' % FPS[s] if s in FPS else s))
            self.apps.append(x)
            self.memo[i] = nm
            return nm
        elif k[0] == 'ite':
            body = '(ite %s %s %s)' % (self.p(k[1]), self.p(k[2], s), self.p(k[3], s))
        elif k[0] == 'to_real':
            body = '(to_real %s)' % self.p(k[1], 'Int')
        elif k[0] == 'to_int':
            body = '(to_int %s)' % self.p(k[1], 'Real')
        elif k[0] in ('<', '<=', '>', '>=', '=', '!='):
            w = 'Real'
            for a in k[1:]:
                if is_sym(a):
                    w = sort_of(a)
                    break
            if w == 'Bool' and k[0] == '!=':
                body = '(xor %s %s)' % (self.p(k[1], w), self.p(k[2], w))
            else:
                op = 'distinct' if k[0] == '!=' else k[0]
                body = '(%s %s %s)' % (op, self.p(k[1], w), self.p(k[2], w))
        elif k[0].startswith('fp.'):
            fs = None
            for a in k[1:]:
                if is_sym(a):
                    fs = sort_of(a)
            fs = fs or s
            args = [self.p(a, fs) for a in k[1:]]
            if k[0] in ('fp.add', 'fp.sub', 'fp.mul', 'fp.div'):
                body = '(%s RNE %s)' % (k[0], ' '.join(args))
            else:
                body = '(%s %s)' % (k[0], ' '.join(args))
        elif k[0] in ('not', 'and', 'or', '=>'):
            body = '(%s %s)' % (k[0], ' '.join(self.p(a, 'Bool') for a in k[1:]))
        elif k[0] == 'neg':
            body = '(- %s)' % self.p(k[1], s)
        elif self.abstract_nonlinear and ((k[0] == '*' and is_sym(k[1]) and is_sym(k[2])) or (k[0] == '/' and is_sym(k[2]))):
            # sound over-approximation: a non-linear product / quotient becomes an unconstrained constant
            nm = '|nl!%d|' % i
            self.out.append('(declare-const %s %s)' % (nm, s))
            if k[0] == '*' and k[1] == k[2]:
                self.out.append('(assert (>= %s 0.0))' % nm)     # a square is non-negative
            self.abstracted += 1
            # functional consistency of the abstracted operation (Ackermann): equal operands => equal result
            a1, a2 = self.p(k[1], s), self.p(k[2], s)
            if len(self.nl) < 80:
                for (op, b1, b2, other) in self.nl:
                    if op != k[0]:
                        continue
                    self.out.append('(assert (=> (and (= %s %s) (= %s %s)) (= %s %s)))' % (a1, b1, a2, b2, nm, other))
                    if op == '*':
                        self.out.append('(assert (=> (and (= %s %s) (= %s %s)) (= %s %s)))' % (a1, b2, a2, b1, nm, other))
            self.nl.append((k[0], a1, a2, nm))
            self.memo[i] = nm
            return nm
        elif k[0] in ('+', '-', '*', '/'):
            body = '(%s %s %s)' % (k[0], self.p(k[1], s), self.p(k[2], s))
        elif k[0] in ('div', 'mod'):
            body = '(%s %s %s)' % (k[0], self.p(k[1], 'Int'), self.p(k[2], 'Int'))
        else:
            raise ValueError('cannot print %r' % (k,))
        nm = 'n%d' % i
        self.out.append('(define-fun %s () %s %s)' % (nm, '(_ FloatingPoint %d %d)' % FPS[s] if s in FPS else s, body))
        self.memo[i] = nm
        return nm


def subterms(roots):
    """All term handles reachable from roots (iterative)."""
    seen = set()
    stack = [r for r in roots if is_sym(r)]
    while stack:
        x = stack.pop()
        if x[1] in seen:
            continue
        seen.add(x[1])
        for a in T.lst[x[1]][1:]:
            if is_sym(a):
                stack.append(a)
    return seen


def show(x, depth=6):
    if not is_sym(x):
        if isinstance(x, Fraction):
            return str(x)
        return repr(x)
    k = node(x)
    if k[0] == 'var':
        return k[1]
    if depth == 0:
        return '..'
    if k[0] == 'app':
        return '%s(%s)' % (k[1], ', '.join(show(a, depth - 1) for a in k[2:]))
    return '(%s %s)' % (k[0], ' '.join(show(a, depth - 1) for a in k[1:]))


def substitute(x, env, memo=None):
    """Replace variables by values (dict name -> value), re-simplifying."""
    if memo is None:
        memo = {}
    if not is_sym(x):
        return x
    if x[1] in memo:
        return memo[x[1]]
    k = node(x)
    s = T.sort[x[1]]
    if k[0] == 'var':
        r = env.get(k[1], x)
    elif k[0] == 'app':
        r = app(k[1], s, *[substitute(a, env, memo) for a in k[2:]])
    else:
        args = [substitute(a, env, memo) for a in k[1:]]
        if k[0] in ('+', '-', '*', '/'):
            r = arith(k[0], args[0], args[1], s)
        elif k[0] == 'neg':
            r = neg(args[0], s)
        elif k[0] in ('<', '<=', '>', '>=', '=', '!='):
            r = cmp(k[0], args[0], args[1])
        elif k[0] == 'not':
            r = bnot(args[0])
        elif k[0] == 'and':
            r = band(args[0], args[1])
        elif k[0] == 'or':
            r = bor(args[0], args[1])
        elif k[0] == 'ite':
            r = ite(args[0], args[1], args[2], s)
        else:
            r = T.mk(s, k[0], *args)
    memo[x[1]] = r
    return r
