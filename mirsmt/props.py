"""Per-harness options (solver schedule, axiom groups, stretch obligations, fixed validation vectors)."""
OPTS = {
    'C02': {},
    'C14': {'c14_nlerp_ends': {'vector_tol': 1e-12, 'vectors': [[0.0, 0.0, 0.0, 1.0, 1e-08, 0.0, 0.0, 1.0], [0.0, 0.0, 0.0, 1.0, -1e-08, -0.0, -0.0, -1.0]]}, 'c14_slerp_ends': {'vector_tol': 1e-12, 'vectors': [[0.0, 0.0, 0.0, 1.0, 1e-08, 0.0, 0.0, 1.0], [0.0, 0.0, 0.0, 1.0, -1e-08, -0.0, -0.0, -1.0]]}},
    'C17': {'*': {'programs': {'quick': 20, 'thorough': 200}, 'mode': 'UF', 'exact_replay': True, 'abstract_first': False}},
    'C13': {'*': {'mixed_int': True, 'feas_solver': 'cvc5', 'abstract_first': False},
            'c13_fp_deg_f64': {'mode': 'FP', 'abstract_first': False}, 'c13_fp_rad_f64': {'mode': 'FP', 'abstract_first': False},
            'c13_fp_deg_f32': {'mode': 'FP', 'abstract_first': False}, 'c13_fp_rad_f32': {'mode': 'FP', 'abstract_first': False},
            'c13_err_f64': {'mode': 'ERR', 'abstract_first': False}, 'c13_err_f32': {'mode': 'ERR', 'abstract_first': False},
'c13_convert': {'pi_symbolic': True, 'mixed_int': False, 'feas_solver': 'z3', 'abstract_first': True}, 'c13_inverse_ranges': {'pi_symbolic': True, 'mixed_int': False, 'feas_solver': 'z3', 'abstract_first': True}, 'c13_trig': {'pi_symbolic': True, 'mixed_int': False, 'feas_solver': 'z3', 'abstract_first': True}, 'c13_inverse_trig': {'pi_symbolic': True, 'mixed_int': False, 'feas_solver': 'z3', 'abstract_first': True}},
    'C07': {'*': {'pi_symbolic': True}},
    'C15': {'*': {'pi_symbolic': True, 'feas_timeout': 1},
            'c15_from_arc_parallel_tolerance': {'pi_symbolic': True, 'feas_timeout': 1, 'vectors': [[1.0, 0.0, 0.0, 2.0, 0.0, 0.0], [1.0, 0.0, 0.0, -1.0, 0.0, 0.0], [0.5, 0.25, 0.0, 1.0, 0.5, 0.0]]}},
    'C10': {'*': {'pi_symbolic': True}},
    'C09': {'c09_quaternion': {'feas_timeout': 1}, 'c09_decomposed_quat_rh': {'feas_timeout': 1}, 'c09_decomposed_quat_lh': {'feas_timeout': 1}},
    'C11': {
        'c11_angle1': {'pi_symbolic': True}, 'c11_angle2': {'pi_symbolic': True}, 'c11_angle3': {'pi_symbolic': True},
        'c11_angle4': {'pi_symbolic': True}, 'c11_angle_quat': {'pi_symbolic': True},
    },
}
