"""Per-harness options (solver schedule, axiom groups, stretch obligations, fixed validation vectors)."""
OPTS = {
    'C02': {},
    'C07': {'*': {'pi_symbolic': True}},
    'C15': {'*': {'pi_symbolic': True, 'feas_timeout': 1},
            'c15_from_arc_parallel_tolerance': {'pi_symbolic': True, 'feas_timeout': 1, 'vectors': [[1.0, 0.0, 0.0, 2.0, 0.0, 0.0], [1.0, 0.0, 0.0, -1.0, 0.0, 0.0], [0.5, 0.25, 0.0, 1.0, 0.5, 0.0]]}},
    'C10': {'*': {'pi_symbolic': True}},
    'C09': {'c09_quaternion': {'feas_timeout': 1}, 'c09_decomposed_quat_rh': {'feas_timeout': 1}, 'c09_decomposed_quat_lh': {'feas_timeout': 1}},
    'C11': {
        'c11_angle1': {'pi_symbolic': True}, 'c11_angle2': {'pi_symbolic': True}, 'c11_angle3': {'pi_symbolic': True},
        'c11_angle4': {'pi_symbolic': True}, 'c11_angle_quat': {'pi_symbolic': True},
    },
}
