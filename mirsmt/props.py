"""Per-harness options (solver schedule, axiom groups, stretch obligations, fixed validation vectors)."""
OPTS = {
    'C02': {},
}
