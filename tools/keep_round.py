#!/usr/bin/env python3
"""usage: keep_round.py <round dir> '<json {prop: highest existing index}>' ['<json overrides {"Cxx.k": [detected, by]}>'] ['<json list of "Cxx.k" to skip>']
Dev tool (not a registered command): after tools/round.sh has processed a round, reads <round dir>/log/<prop>.log (and
rerun.log), requires the confirmation lines (existing tests pass with the change, demo fails with it and passes without),
derives detected / by from the check's exit code and VIOLATION lines, and files each change through keep_seeded.py."""
import json, os, re, subprocess, sys
rd = sys.argv[1]; base = json.loads(sys.argv[2]); over = json.loads(sys.argv[3]) if len(sys.argv) > 3 else {}
skip = set(json.loads(sys.argv[4])) if len(sys.argv) > 4 else set()
for prop in sorted(base):
    logs = open('%s/log/%s.log' % (rd, prop)).read()
    extra = open('%s/log/rerun.log' % rd).read() if os.path.exists('%s/log/rerun.log' % rd) else ''
    parts = re.split(r'^=== ', logs, flags=re.M)[1:]
    for part in parts:
        m = re.match(r'(\w+) change (\d+)', part); idx = int(m.group(2))
        key = '%s.%d' % (prop, idx)
        if key in skip: continue
        ok = '278 passed, 0 failed' in part and re.search(r'demo with change: test result: FAILED', part) and re.search(r'demo without change: test result: ok', part)
        if not ok: print('NOT CONFIRMED', key); continue
        seg = part
        if 'exit=' not in part.split('--- check')[-1]:
            mm = re.search(r'^=== %s change %d\n(.*?)(?=^=== |\Z)' % (prop, idx), extra, flags=re.M | re.S)
            seg = mm.group(1) if mm else part
        ex = re.search(r'exit=(\d+)', seg.split('--- check')[-1]); ex = ex.group(1) if ex else ('1' if 'VIOLATION' in seg else '?')
        v = re.findall(r'^VIOLATION property=\w+ (?:harness=(\S+) assert=(\S+)|replay=\S*/C\d\d-(\S+?)\.json)', seg, flags=re.M)
        names = []
        for a, b, c in v:
            n = ('%s: %s' % (a, b)) if a else re.sub(r'_\d+-\d+$', '', c)
            if n not in names: names.append(n)
        didx = base[prop] + idx
        if key in over: det, by = over[key]
        elif ex == '1': det, by = 'yes', '; '.join(names[:4]) + ' (VIOLATION, replayed natively)'
        else: det, by = 'no', 'exit ' + ex
        print(key, '->', '%s-%d' % (prop, didx), det, by[:150])
        subprocess.check_call(['python3', os.path.join(os.path.dirname(os.path.abspath(__file__)), 'keep_seeded.py'), prop, '%s/%s' % (rd, prop), str(idx), det, by, str(didx)])
