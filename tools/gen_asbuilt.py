#!/usr/bin/env python3
"""Rewrites DESIGN.md section 10.7 (per-property as-built table) from the current evidence files."""
import json, glob, os, re
V = os.path.dirname(os.path.dirname(os.path.abspath(__file__)))
EXCL = {
 'C01': 'IEEE rounding (real field)', 'C02': 'IEEE rounding', 'C03': 'IEEE rounding; integer overflow (inputs bounded)', 'C04': 'IEEE rounding', 'C05': 'IEEE rounding',
 'C06': 'IEEE rounding; trigonometric functions are axiomatised, not evaluated',
 'C07': 'IEEE rounding; the four z-dependent entries of the 0.13 gimbal bound away from the exact poles',
 'C08': 'IEEE rounding; Matrix4 composition laws on vectors for non-affine matrices (false there)',
 'C09': 'IEEE rounding; Quaternion look_at agreement is compositional (C05 round trip + structural equality)',
 'C10': 'IEEE rounding; degenerate accepted frustum parameters (left = right ...) divide by zero',
 'C11': 'IEEE rounding', 'C12': 'IEEE rounding; centroid beyond 8 points except the sampled lengths (22 up to 300 in dimension 1, 8 up to 260 in dimension 3); integer midpoint',
 'C13': 'modular clauses beyond 64 turns (8 for bisect); 4-epsilon clause outside 2^-1000..2^1017 (f32: 2^-110..2^121) and its (1+delta) model; values of sin/cos themselves',
 'C14': 'IEEE rounding (f32 twins model f32 literals and tolerances, not f32 rounding); the 1e-5 rad clause on the nlerp hand-over path',
 'C15': 'IEEE rounding; from_arc tolerance outside lengths [1e-3, 1e3] (known finding)',
 'C16': 'element types outside the table; the quick tier samples element types',
 'C17': 'programs are sampled (20 / 400 per seed); folds beyond 9 items (products beyond 5-6 factors); calls that end in un-inlined generic iterator code of std are inconclusive', 'C18': 'the scalar relations themselves (approx crate) are opaque atoms with a contract; the value of the default tolerances',
 'C19': 'quick tier: 24 of 144 pairs', 'C20': 'text formats (serde_json float printing)'}
rows = []
for f in sorted(glob.glob(os.path.join(V, 'evidence', 'C*.json'))):
    e = json.load(open(f)); c = e['coverage']; p = e['property_id']
    hs = c.get('harnesses')
    if isinstance(hs, dict) and 'obligations' in c:
        rows.append('| %s | M | %d | %s obligations, %s paths, %s differential runs | %.0f | %s |' % (p, len(hs), c['obligations'], c.get('paths'), c.get('traces_validated_against_impl'), e['wall_s'], EXCL[p]))
    else:
        n = len(hs) if hs is not None else c.get('harness_count', '?')
        rows.append('| %s | K | %s | %s CBMC checks | %.0f | %s |' % (p, n, c.get('transitions'), e['wall_s'], EXCL[p]))
txt = ("### 10.7 As built, per property (from the committed evidence of the last clean %s sweep)\n\n"
       "| property | engine | harnesses | decided | wall s | outside the claim |\n|---|---|---|---|---|---|\n" % json.load(open(os.path.join(V, 'evidence', 'C01.json')))['tier']) + '\n'.join(rows) + "\n\nThe thorough tier of all twenty checks passes on the unchanged tree (last full thorough sweep on an otherwise idle machine, with the second lowering on every harness: 8-310 s each except C17, whose 400 programs in two lowerings take 16 minutes; C14 311 s, C16 with 338 harnesses 244 s, C20 294 s; about 45 minutes in total).\n"
p = os.path.join(V, 'DESIGN.md')
s = open(p).read()
i = s.find('### 10.7')
if i >= 0:
    j = s.find('\n### ', i + 5)
    j2 = s.find('\n## ', i + 5)
    ends = [x for x in (j, j2) if x >= 0]
    s = s[:i] + txt + (s[min(ends):] if ends else '')
else:
    s += '\n' + txt
open(p, 'w').write(s)
print('10.7 rewritten,', len(rows), 'rows')
