#!/usr/bin/env python3
"""Prints the markdown table of seeded changes (from seeded/*/meta.json) for DESIGN.md section 10.5."""
import glob, json, os
V = os.path.dirname(os.path.dirname(os.path.abspath(__file__)))
rows = []
def _key(d):
    b = os.path.basename(d).split('-')
    return (b[0], int(b[1]) if len(b) > 1 and b[1].isdigit() else 0)
for d in sorted([x for x in glob.glob(os.path.join(V, 'seeded', '*')) if os.path.isdir(x)], key=_key):
    m = json.load(open(os.path.join(d, 'meta.json')))
    if 'what' not in m: continue
    rows.append((os.path.basename(d), m))
print('| id | what was changed | needs | detected | by |')
print('|---|---|---|---|---|')
for name, m in rows:
    esc = lambda s: (s or '').replace('|', '\\|').replace('\n', ' ')
    print('| %s | %s | %s | %s | %s |' % (name, esc(m['what'])[:260], esc(m['needs_to_manifest'])[:200], m['check']['detected'], esc(m['check']['by'])[:420]))
n = len(rows)
y = sum(1 for _, m in rows if m['check']['detected'] == 'yes')
a = sum(1 for _, m in rows if m['check']['detected'] == 'after-strengthening')
print()
print('%d seeded changes: %d detected by the checks as first run, %d after strengthening the machinery, %d not detected (%s).' % (n, y, a, n - y - a, ', '.join(nm for nm, m in rows if m['check']['detected'] not in ('yes', 'after-strengthening')) or 'none'))
