#!/bin/bash
# usage: tools/try_seeded.sh <property> <patch.diff> [extra check args]
# Applies a seeded change to /repo, runs the property's quick check, restores /repo. Dev tool, not a registered command.
set -u
PROP=$1; PATCH=$2; shift 2
cd /repo || exit 3
if [ -n "$(git status --porcelain --untracked-files=no)" ]; then echo "/repo is not clean"; exit 3; fi
trap 'git -C /repo checkout -- . ; git -C /repo status --short --untracked-files=no' EXIT
git apply "$PATCH" || { echo "patch does not apply"; exit 3; }
cd /verif && timeout 2400 ./check "$PROP" "$@" 2>&1 | grep "^OK\|^VIOLATION\|^INCONCLUSIVE\|^KNOWN\|COUNTEREXAMPLE" | cut -c1-230 | head -20
echo "exit=${PIPESTATUS[0]}"
