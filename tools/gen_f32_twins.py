#!/usr/bin/env python3
"""Generates the f32 twins of the abstract scalar and of selected harnesses.

  harness/src/r32.rs     R32: `R` with f32 inside (from the scalar section of lib.rs)
  harness/src/util32.rs  the oracle helpers of util.rs at R32
  harness/src/c14f.rs    c14f_*: the nlerp / slerp harnesses and their lemma functions at R32
  harness/src/c07f.rs    c07f_*: the Euler-extraction harnesses at R32 (if listed below)

Why: cgmath obtains its numeric literals through `cast(<f64 literal>)`; at S = f32 they round (0.9995, 0.499, 1e-6,
pi ...), and the default tolerances are f32's.  A literal that is harmless at f64 can be wrong at f32 (0.99999999
rounds to 1.0f32).  The twins run the same obligations on the f32 instantiation of the same generic code: constants
are rounded to f32 by the executor exactly as `r32_const` does natively, arithmetic on symbolic values stays exact
(REAL mode), and counterexamples are replayed on the native f32 build.

The generated files are committed (like shims.rs); re-run this tool after editing lib.rs / util.rs / the sources.
"""
import os
import re
import sys

V = os.path.dirname(os.path.dirname(os.path.abspath(__file__)))
SRC = os.path.join(V, 'harness', 'src')

TWINS = {
    # source file: (module name, prefix, twin prefix, [functions to copy] or None for all, extra header)
    'c14.rs': ('c14f', 'c14_', 'c14_f32_', ['c14_lemma_unit', 'c14_lemma_expand', 'c14_lemma_arc', 'c14_lemma_sqrt_sq', 'c14_lemma_slerp_core',
                                        'c14_lemma_scale4', 'c14_lemma_slerp_div', 'c14_lemma_sin_pos', 'c14_lemma_bilinear',
                                        'c14_nlerp', 'c14_nlerp_ends', 'c14_slerp', 'c14_slerp_ends']),
}


def to32(text):
    text = re.sub(r'\bR\b', 'R32', text)
    return text


def gen_r32():
    src = open(os.path.join(SRC, 'lib.rs')).read()
    a = src.index('#[derive(Copy, Clone, Debug, PartialEq)]\npub struct R(pub f64);')
    b = src.index('#[inline(always)] pub fn r(x: f64) -> R { R(x) }')
    body = src[a:b]
    for m in ('binop', 'un', 'cst', 'pred'):
        body = re.sub(r'\b%s!' % m, m + '32!', body)
        body = body.replace('macro_rules! %s ' % m, 'macro_rules! %s32 ' % m)
    body = to32(body).replace('f64', 'f32')
    fix = [("#[inline(never)] fn to_f32(&self) -> Option<f32> { Some(self.0) }", "#[inline(never)] fn to_f64(&self) -> Option<f64> { Some(self.0 as f64) }"),
           ("#[inline(never)] pub fn r_const(c: f32) -> R32 { R32(c) }", "#[inline(never)] pub fn r32_const(c: f64) -> R32 { R32(c as f32) }"),
           ("match n.to_f32() { Some(x) => Some(r_const(x)), None => None }", "match n.to_f64() { Some(x) => Some(r32_const(x)), None => None }")]
    for x, y in fix:
        assert x in body, x
        body = body.replace(x, y)
    hdr = ('//! `R32`: the f32 twin of the abstract scalar `R`.  GENERATED from lib.rs by tools/gen_f32_twins.py -- do not edit.\n'
           '//! Constants that cgmath obtains through `cast(..)` are rounded to f32 (`r32_const`), default tolerances are f32\'s;\n'
           '//! in REAL mode arithmetic on symbolic values is exact, as for `R`.  Natively it is plain f32.\n'
           'use crate::{Leaf, Leaves};\nuse num_traits::{Float, Num, NumCast, One, ToPrimitive, Zero};\nuse std::ops::*;\n\n')
    tail = ('\nimpl Leaves for R32 {\n'
            '    fn leaves(&self, out: &mut Vec<Leaf>) { out.push(Leaf::F(self.0 as f64)) }\n'
            '    fn build(it: &mut dyn Iterator<Item = Leaf>) -> R32 { match it.next() { Some(Leaf::F(x)) => R32(x as f32), Some(Leaf::I(x)) => R32(x as f32), o => panic!("bad leaf for R32: {:?}", o) } }\n'
            '}\n')
    open(os.path.join(SRC, 'r32.rs'), 'w').write(hdr + body + tail)


def gen_util32():
    src = open(os.path.join(SRC, 'util.rs')).read()
    out = '//! GENERATED from util.rs by tools/gen_f32_twins.py (the oracle helpers at R32) -- do not edit.\n' + to32(src)
    out = out.replace('use crate::*;', 'use crate::*;\nuse crate::r32::R32;')
    open(os.path.join(SRC, 'util32.rs'), 'w').write(out)


def split_fns(block):
    """top-level `fn name(...) {...}` items (with the comment lines directly above them) of a harnesses! block"""
    fns = []
    i = 0
    n = len(block)
    while True:
        m = re.compile(r'^fn (\w+)\s*\(', re.M).search(block, i)
        if not m:
            break
        # extend backwards over directly preceding comment lines
        start = m.start()
        while True:
            prev = block.rfind('\n', 0, start - 1)
            line = block[prev + 1:start - 1] if prev >= 0 else block[:max(0, start - 1)]
            if line.strip().startswith('//') and prev >= 0:
                start = prev + 1
            else:
                break
        j = block.index('{', m.end())
        depth = 0
        k = j
        while k < n:
            c = block[k]
            if c == '"':
                k += 1
                while block[k] != '"':
                    k += 2 if block[k] == '\\' else 1
            elif c == '{':
                depth += 1
            elif c == '}':
                depth -= 1
                if depth == 0:
                    break
            k += 1
        fns.append((m.group(1), block[start:k + 1]))
        i = k + 1
    return fns


def gen_twin(fname, mod, pre, tpre, keep):
    src = open(os.path.join(SRC, fname)).read()
    a = src.index('harnesses! { reg;')
    head = src[:a]
    # module-level helper fns / macros before the harnesses! block are copied too (minus the doc header)
    helpers = '\n'.join(l for l in head.split('\n') if not l.startswith('//!') and not l.startswith('use '))
    depth = 0
    k = src.index('{', a)
    j = k
    while j < len(src):
        if src[j] == '"':
            j += 1
            while src[j] != '"':
                j += 2 if src[j] == '\\' else 1
        elif src[j] == '{':
            depth += 1
        elif src[j] == '}':
            depth -= 1
            if depth == 0:
                break
        j += 1
    block = src[k + 1:j]
    fns = split_fns(block)
    names = [n for n, _ in fns]
    for kname in keep:
        assert kname in names, (fname, kname)
    body = '\n'.join(t for n, t in fns if n in keep)
    body = re.sub(r'\b%s(\w+)' % re.escape(pre), lambda m: tpre + m.group(1), body)
    out = ('//! GENERATED from %s by tools/gen_f32_twins.py: the same harnesses on the f32 instantiation (scalar R32) -- do not edit.\n'
           'use crate::util32::*;\nuse crate::r32::R32;\nuse crate::*;\nuse cgmath::*;\n' % fname
           + to32(helpers) + '\nharnesses! { reg;\n' + to32(body) + '\n}\n')
    open(os.path.join(SRC, mod + '.rs'), 'w').write(out)


def main():
    gen_r32()
    gen_util32()
    for fname, (mod, pre, tpre, keep) in TWINS.items():
        gen_twin(fname, mod, pre, tpre, keep)
    print('generated r32.rs, util32.rs, ' + ', '.join(m + '.rs' for m, _, _, _ in TWINS.values()))


if __name__ == '__main__':
    main()
