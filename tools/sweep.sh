#!/bin/bash
# usage: tools/sweep.sh [quick|thorough] [parallel jobs, default 3]
# Dev tool: runs every check of MANIFEST.json on /repo as it is, a few at a time, and prints one line per property.
# (The registered commands are the individual ./check Cxx --tier ... invocations; this only batches them.)
T=${1:-quick}; J=${2:-3}
cd "$(dirname "$0")/.." || exit 3
mkdir -p .build/sweep
seq -w 1 20 | xargs -P "$J" -I{} sh -c "./check C{} --tier $T > .build/sweep/C{}.$T.log 2>&1; echo \"C{} exit=\$? \$(grep '^OK\|^VIOLATION\|^INCONCLUSIVE\|^KNOWN' .build/sweep/C{}.$T.log | head -3 | cut -c1-160 | tr '\n' ' ')\""
