#!/bin/bash
# usage: tools/confirm_seeded.sh <worktree> <patch> <demo.rs>
# (FEATURES='--features serde' for demos that need an optional feature)
# Confirms in the scratch worktree: patch applies, existing tests pass with it, demo fails with it and passes without.
set -u
W=$1; P=$2; D=$3
cd "$W" || exit 3
git checkout -q -- . ; rm -f tests/zz_demo.rs
git apply "$P" || { echo "CONFIRM: patch does not apply"; exit 3; }
echo -n "existing tests with change: "; cargo test --workspace --no-fail-fast --offline 2>&1 | grep "test result" | awk '{p+=$4; f+=$6} END {print p" passed, "f" failed"}'
cp "$D" tests/zz_demo.rs
echo -n "demo with change: "; cargo test --offline ${FEATURES:-} --test zz_demo 2>&1 | grep "test result" | head -1
git checkout -q -- .
echo -n "demo without change: "; cargo test --offline ${FEATURES:-} --test zz_demo 2>&1 | grep "test result" | head -1
rm -f tests/zz_demo.rs
