#!/usr/bin/env python3
"""Generates harness/src/c17.rs (operator spellings) and, per run, harness/src/c17_prog.rs (seeded random
straight-line programs written twice with independently chosen spellings).

The table below is the list of (type, operator, right operand) triples the property names; a form that does
not exist in /repo is a compile error naming it."""
import os, random, sys
V = os.path.dirname(os.path.dirname(os.path.abspath(__file__)))
OPS = {'Add': '+', 'Sub': '-', 'Mul': '*', 'Div': '/', 'Rem': '%'}
VEC = ['Vector1', 'Vector2', 'Vector3', 'Vector4']
PNT = ['Point1', 'Point2', 'Point3']
MAT = ['Matrix2', 'Matrix3', 'Matrix4']
PV = {'Point1': 'Vector1', 'Point2': 'Vector2', 'Point3': 'Vector3'}
MV = {'Matrix2': 'Vector2', 'Matrix3': 'Vector3', 'Matrix4': 'Vector4'}
PRIMS = ['u8', 'u16', 'u32', 'u64', 'usize', 'i8', 'i16', 'i32', 'i64', 'isize', 'f32', 'f64']
FIELDS = {'Vector1': ['x'], 'Vector2': ['x', 'y'], 'Vector3': ['x', 'y', 'z'], 'Vector4': ['x', 'y', 'z', 'w'],
          'Point1': ['x'], 'Point2': ['x', 'y'], 'Point3': ['x', 'y', 'z']}


def four(lhs, rhs, op, assign):
    """harness body lines for a binary operator with all four operand forms (+ compound assignment)."""
    o = OPS[op]
    L = ['    let base = a %s b;' % o,
         '    vassert_eq("&a %s b", &a %s b, base);' % (o, o),
         '    vassert_eq("a %s &b", a %s &b, base);' % (o, o),
         '    vassert_eq("&a %s &b", &a %s &b, base);' % (o, o)]
    if assign:
        L.append('    let mut t = a; t %s= b; vassert_eq("a %s= b", t, base);' % (o, o))
    return L


def two(op, assign):
    o = OPS[op]
    L = ['    let base = a %s s;' % o, '    vassert_eq("&a %s s", &a %s s, base);' % (o, o)]
    if assign:
        L.append('    let mut t = a; t %s= s; vassert_eq("a %s= s", t, base);' % (o, o))
    return L


def gen_static():
    H = []      # (name, params, body lines)
    def add(name, params, lines, pre=None):
        H.append((name, params, (pre or []) + lines + ['    vcover("end");']))
    nz = ['    vmay_panic();']   # division / remainder by zero panics identically in every spelling
    for v in VEC:
        t = '%s<R>' % v
        n = v.lower()
        add('c17_%s_add' % n, 'a: %s, b: %s' % (t, t), four(t, t, 'Add', True))
        add('c17_%s_sub' % n, 'a: %s, b: %s' % (t, t), four(t, t, 'Sub', True))
        add('c17_%s_scalar' % n, 'a: %s, s: R' % t, two('Mul', True) + ['    { ' + ' '.join(x.strip() for x in two('Div', True)) + ' }', '    { ' + ' '.join(x.strip() for x in two('Rem', True)) + ' }',
                                                     '    vassert_eq("-&a", -&a, -a);'] if False else
            two('Mul', True) + ['    { ' + ' '.join(x.strip() for x in two('Div', True)) + ' }', '    { ' + ' '.join(x.strip() for x in two('Rem', True)) + ' }'])
        add('c17_%s_neg' % n, 'a: %s' % t, ['    let base = -a;', '    vassert_eq("neg", base, %s { %s });' % (v, ', '.join('%s: -a.%s' % (f, f) for f in FIELDS[v]))])
    for p in PNT:
        t = '%s<R>' % p
        vt = '%s<R>' % PV[p]
        n = p.lower()
        add('c17_%s_add_vec' % n, 'a: %s, b: %s' % (t, vt), four(t, vt, 'Add', True))
        add('c17_%s_sub_vec' % n, 'a: %s, b: %s' % (t, vt), four(t, vt, 'Sub', True))
        add('c17_%s_sub_point' % n, 'a: %s, b: %s' % (t, t), four(t, t, 'Sub', False))
        add('c17_%s_scalar' % n, 'a: %s, s: R' % t, two('Mul', True) + ['    { ' + ' '.join(x.strip() for x in two('Div', True)) + ' }', '    { ' + ' '.join(x.strip() for x in two('Rem', True)) + ' }'])
    for m in MAT:
        t = '%s<R>' % m
        vt = '%s<R>' % MV[m]
        n = m.lower()
        add('c17_%s_add' % n, 'a: %s, b: %s' % (t, t), four(t, t, 'Add', True))
        add('c17_%s_sub' % n, 'a: %s, b: %s' % (t, t), four(t, t, 'Sub', True))
        add('c17_%s_mul' % n, 'a: %s, b: %s' % (t, t), four(t, t, 'Mul', False))
        add('c17_%s_mul_vec' % n, 'a: %s, b: %s' % (t, vt), four(t, vt, 'Mul', False))
        add('c17_%s_scalar' % n, 'a: %s, s: R' % t, two('Mul', True) + ['    { ' + ' '.join(x.strip() for x in two('Div', True)) + ' }', '    { ' + ' '.join(x.strip() for x in two('Rem', True)) + ' }', '    vassert_eq("-&a", -&a, -a);'])
    q = 'Quaternion<R>'
    add('c17_quat_add', 'a: %s, b: %s' % (q, q), four(q, q, 'Add', True))
    add('c17_quat_sub', 'a: %s, b: %s' % (q, q), four(q, q, 'Sub', True))
    add('c17_quat_mul', 'a: %s, b: %s' % (q, q), four(q, q, 'Mul', False))
    add('c17_quat_mul_vec', 'a: %s, b: Vector3<R>' % q, four(q, 'Vector3<R>', 'Mul', False))
    add('c17_quat_scalar', 'a: %s, s: R' % q, two('Mul', True) + ['    { ' + ' '.join(x.strip() for x in two('Div', True)) + ' }', '    { ' + ' '.join(x.strip() for x in two('Rem', True)) + ' }', '    vassert_eq("-&a", -&a, -a);'])
    for A in ('Rad', 'Deg'):
        t = '%s<R>' % A
        n = A.lower()
        add('c17_%s_add' % n, 'a: %s, b: %s' % (t, t), four(t, t, 'Add', True))
        add('c17_%s_sub' % n, 'a: %s, b: %s' % (t, t), four(t, t, 'Sub', True))
        add('c17_%s_div' % n, 'a: %s, b: %s' % (t, t), four(t, t, 'Div', False))
        add('c17_%s_rem' % n, 'a: %s, b: %s' % (t, t), four(t, t, 'Rem', True))
        add('c17_%s_scalar' % n, 'a: %s, s: R' % t, two('Mul', True) + ['    { ' + ' '.join(x.strip() for x in two('Div', True)) + ' }', '    vassert_eq("-&a", -&a, -a);'])
    add('c17_basis2_mul', 'ta: R, d: Vector2<R>, up: Vector2<R>', ['    vmay_panic();', '    let (a, b): (Basis2<R>, Basis2<R>) = (Rotation2::from_angle(Rad(ta)), Rotation::look_at(d, up));',
                                            '    let base: Matrix2<R> = (a * b).into();', '    let f1: Matrix2<R> = (&a * b).into(); vassert_eq("&a * b", f1, base);',
                                            '    let f2: Matrix2<R> = (a * &b).into(); vassert_eq("a * &b", f2, base);', '    let f3: Matrix2<R> = (&a * &b).into(); vassert_eq("&a * &b", f3, base);'])
    add('c17_basis3_mul', 'qa: Quaternion<R>, qb: Quaternion<R>', ['    let (a, b) = (Basis3::from_quaternion(&qa), Basis3::from_quaternion(&qb));',
                                            '    let base: Matrix3<R> = (a * b).into();', '    let f1: Matrix3<R> = (&a * b).into(); vassert_eq("&a * b", f1, base);',
                                            '    let f2: Matrix3<R> = (a * &b).into(); vassert_eq("a * &b", f2, base);', '    let f3: Matrix3<R> = (&a * &b).into(); vassert_eq("&a * &b", f3, base);'])
    # ---- scalar on the left, at each of the twelve primitive types (the per-type macro arm is what is lowered)
    for T in PRIMS:
        for c in VEC + PNT:
            fs = FIELDS[c]
            L = ['    vmay_panic();']
            for op in ('Mul', 'Div', 'Rem'):
                o = OPS[op]
                want = '%s { %s }' % (c, ', '.join('%s: s %s c.%s' % (f, o, f) for f in fs))
                L.append('    vassert_eq("s %s c", s %s c, %s);' % (o, o, want))
                L.append('    vassert_eq("s %s &c", s %s &c, %s);' % (o, o, want))
            add('c17_left_%s_%s' % (T, c.lower()), 's: %s, c: %s<%s>' % (T, c, T), L)
    for T in ('f32', 'f64'):
        for m in MAT:
            cols = FIELDS[MV[m]]
            L = ['    vmay_panic();']
            for op in ('Mul', 'Div', 'Rem'):
                o = OPS[op]
                want = '%s { %s }' % (m, ', '.join('%s: %s { %s }' % (cf, MV[m], ', '.join('%s: s %s c.%s.%s' % (f, o, cf, f) for f in cols)) for cf in cols))
                L.append('    vassert_eq("s %s c", s %s c, %s);' % (o, o, want))
                L.append('    vassert_eq("s %s &c", s %s &c, %s);' % (o, o, want))
            add('c17_left_%s_%s' % (T, m.lower()), 's: %s, c: %s<%s>' % (T, m, T), L)
        L = ['    vmay_panic();']
        for op in ('Mul', 'Div'):
            o = OPS[op]
            want = 'Quaternion { v: Vector3 { x: s %s c.v.x, y: s %s c.v.y, z: s %s c.v.z }, s: s %s c.s }' % (o, o, o, o)
            L.append('    vassert_eq("s %s c", s %s c, %s);' % (o, o, want))
            L.append('    vassert_eq("s %s &c", s %s &c, %s);' % (o, o, want))
        add('c17_left_%s_quaternion' % T, 's: %s, c: Quaternion<%s>' % (T, T), L)
    # integer matrices: the scalar-on-the-left impls exist for every primitive type but Matrix requires BaseFloat
    # ---- Sum / Product over iterators of values and of references = left fold from zero() / one()
    def folds(name, ty, zero, op, method, n=4):
        L = []
        names = ['a', 'b', 'c', 'd']
        for k in range(0, n + 1):
            arr = '[%s]' % ', '.join(names[:k])
            want = zero
            for x in names[:k]:
                want = '(%s %s %s)' % (want, op, x)
            if k == 0:
                L.append('    { let e: [%s; 0] = []; let r1: %s = e.iter().%s(); let r2: %s = e.into_iter().%s(); vassert_eq("%s of 0 refs", r1, %s); vassert_eq("%s of 0 values", r2, %s); }' % (ty, ty, method, ty, method, method, zero, method, zero))
            else:
                L.append('    { let r1: %s = %s.iter().%s(); let r2: %s = %s.into_iter().%s(); vassert_eq("%s of %d refs", r1, %s); vassert_eq("%s of %d values", r2, %s); }' % (ty, arr, method, ty, arr, method, method, k, want, method, k, want))
        # the same fold through an adaptor that gives no lower size hint (an "empty iterator" shortcut keyed on size_hint
        # would answer the neutral element here)
        arr2 = '[%s]' % ', '.join(names[:2])
        want2 = '((%s %s a) %s b)' % (zero, op, op)
        add(name, ', '.join('%s: %s' % (x, ty) for x in names[:n]), L)
        # (a harness of its own: adaptors lower to calls into std's generic iterator code, which the executor may not be
        # able to follow after a rewrite of the fold; the plain clauses above then still get their verdict)
        L = ['    { let r3: %s = %s.iter().filter(|_| true).%s(); let r4: %s = %s.into_iter().filter(|_| true).%s(); vassert_eq("%s of 2 refs, filtered", r3, %s); vassert_eq("%s of 2 values, filtered", r4, %s); }' % (ty, arr2, method, ty, arr2, method, method, want2, method, want2)]
        add(name + '_filtered', ', '.join('%s: %s' % (x, ty) for x in names[:2]), L)
    def folds_long(name, ty, zero, op, method, lo, hi):
        # longer iterators (BOUND: lo..hi items): an unrolled or pairwise rewrite of the fold agrees with the left fold on
        # short inputs and re-associates only from its block size on
        names = list('abcdefghi')[:hi]
        L = []
        for k in range(lo, hi + 1):
            arr = '[%s]' % ', '.join(names[:k])
            want = zero
            for x in names[:k]:
                want = '(%s %s %s)' % (want, op, x)
            L.append('    { let r1: %s = %s.iter().%s(); let r2: %s = %s.into_iter().%s(); vassert_eq("%s of %d refs", r1, %s); vassert_eq("%s of %d values", r2, %s); }' % (ty, arr, method, ty, arr, method, method, k, want, method, k, want))
        add(name, ', '.join('%s: %s' % (x, ty) for x in names), L)
    for v in VEC:
        folds('c17_sum_%s' % v.lower(), '%s<R>' % v, '%s::<R>::zero()' % v, '+', 'sum')
        folds_long('c17_sum_%s_long' % v.lower(), '%s<R>' % v, '%s::<R>::zero()' % v, '+', 'sum', 5, 9)
    folds_long('c17_sum_quat_long', 'Quaternion<R>', 'Quaternion::<R>::zero()', '+', 'sum', 5, 9)
    folds_long('c17_product_quat_long', 'Quaternion<R>', 'Quaternion::<R>::one()', '*', 'product', 4, 6)
    folds_long('c17_sum_rad_long', 'Rad<R>', 'Rad::<R>::zero()', '+', 'sum', 5, 9)
    folds_long('c17_sum_matrix2_long', 'Matrix2<R>', 'Matrix2::<R>::zero()', '+', 'sum', 4, 9)
    folds_long('c17_product_matrix2_long', 'Matrix2<R>', 'Matrix2::<R>::identity()', '*', 'product', 4, 6)
    folds_long('c17_product_matrix3_long', 'Matrix3<R>', 'Matrix3::<R>::identity()', '*', 'product', 3, 5)
    folds_long('c17_product_matrix4_long', 'Matrix4<R>', 'Matrix4::<R>::identity()', '*', 'product', 3, 5)
    folds_long('c17_sum_matrix3_long', 'Matrix3<R>', 'Matrix3::<R>::zero()', '+', 'sum', 4, 6)
    folds_long('c17_sum_matrix4_long', 'Matrix4<R>', 'Matrix4::<R>::zero()', '+', 'sum', 4, 6)
    for m in MAT:
        folds('c17_sum_%s' % m.lower(), '%s<R>' % m, '%s::<R>::zero()' % m, '+', 'sum', 3)
        # (fewer factors for the larger matrices: a data-dependent branch per factor would multiply paths)
        folds('c17_product_%s' % m.lower(), '%s<R>' % m, '%s::<R>::identity()' % m, '*', 'product', {'Matrix2': 3, 'Matrix3': 2, 'Matrix4': 2}[m])
    folds('c17_sum_quat', 'Quaternion<R>', 'Quaternion::<R>::zero()', '+', 'sum')
    folds('c17_product_quat', 'Quaternion<R>', 'Quaternion::<R>::one()', '*', 'product', 3)
    folds('c17_sum_rad', 'Rad<R>', 'Rad::<R>::zero()', '+', 'sum')
    folds('c17_sum_deg', 'Deg<R>', 'Deg::<R>::zero()', '+', 'sum')
    add('c17_product_basis2', 'ta: R, d: Vector2<R>, up: Vector2<R>, tc: R', [
        '    // the middle factor comes from look_at and may be a reflection, so the factors need not commute',
        '    let (a, b, c): (Basis2<R>, Basis2<R>, Basis2<R>) = (Rotation2::from_angle(Rad(ta)), Rotation::look_at(d, up), Rotation2::from_angle(Rad(tc)));',
        '    let want: Matrix2<R> = (((Basis2::<R>::one() * a) * b) * c).into();',
        '    let r1: Basis2<R> = [a, b, c].iter().product(); let r2: Basis2<R> = [a, b, c].into_iter().product();',
        '    let (m1, m2): (Matrix2<R>, Matrix2<R>) = (r1.into(), r2.into());',
        '    vassert_eq("product of refs", m1, want); vassert_eq("product of values", m2, want);'])
    add('c17_product_basis3', 'qa: Quaternion<R>, qb: Quaternion<R>', [
        '    let (a, b) = (Basis3::from_quaternion(&qa), Basis3::from_quaternion(&qb));',
        '    let want: Matrix3<R> = ((Basis3::<R>::one() * a) * b).into();',
        '    let r1: Basis3<R> = [a, b].iter().product(); let r2: Basis3<R> = [a, b].into_iter().product();',
        '    let (m1, m2): (Matrix3<R>, Matrix3<R>) = (r1.into(), r2.into());',
        '    vassert_eq("product of refs", m1, want); vassert_eq("product of values", m2, want);'])
    out = ['//! GENERATED by tools/gen_c17.py -- do not edit.', '//! C17 -- every spelling of an operator computes the same value.',
           'use crate::*;', 'use cgmath::*;', 'use num_traits::{One, Zero};', '',
           '#[cfg(feature = "native")]', 'pub fn reg() -> Vec<(&\'static str, crate::HarnessFn)> { let mut v = reg0(); v.extend(crate::c17_prog::reg()); v }', '',
           'harnesses! { reg0;']
    for name, params, lines in H:
        out.append('fn %s(%s) {' % (name, params))
        out += lines
        out.append('}')
    out.append('}')
    open(os.path.join(V, 'harness', 'src', 'c17.rs'), 'w').write('\n'.join(out) + '\n')
    return len(H)


# ------------------------------------------------------------------ random straight-line programs
def gen_programs(seed, count):
    rng = random.Random(seed)
    out = ['//! GENERATED per run by tools/gen_c17.py from VERIF_SEED=%d -- do not edit.' % seed,
           '//! Each program is written twice with independently chosen operand forms; the results must agree.',
           'use crate::*;', 'use cgmath::*;', '', 'harnesses! { reg;']
    for k in range(count):
        # typed pool: values available so far
        pool = {'V': ['v0', 'v1'], 'M': ['m0', 'm1'], 'S': ['s0', 's1'], 'Q': ['q0', 'q1'], 'P': ['p0']}
        ty = {'V': 'Vector3<R>', 'M': 'Matrix3<R>', 'S': 'R', 'Q': 'Quaternion<R>', 'P': 'Point3<R>'}
        rules = [('V', '+', 'V', 'V', 4), ('V', '-', 'V', 'V', 4), ('V', '*', 'S', 'V', 2), ('M', '*', 'V', 'V', 4), ('M', '*', 'M', 'M', 4), ('M', '+', 'M', 'M', 4), ('M', '-', 'M', 'M', 4),
                 ('M', '*', 'S', 'M', 2), ('Q', '*', 'Q', 'Q', 4), ('Q', '*', 'V', 'V', 4), ('Q', '+', 'Q', 'Q', 4), ('Q', '*', 'S', 'Q', 2), ('P', '+', 'V', 'P', 4), ('P', '-', 'P', 'V', 4), ('P', '-', 'V', 'P', 4)]
        steps = []
        n = rng.randint(6, 12)
        for i in range(n):
            l, op, r, res, forms = rng.choice(rules)
            a = rng.choice(pool[l])
            b = rng.choice(pool[r])
            name = 't%d' % i
            steps.append((name, res, a, op, b, l, r, forms))
            pool[res].append(name)
        def emit(suffix, fr):
            L = []
            ren = lambda x: x + suffix if x.startswith('t') else x
            for name, res, a, op, b, l, r, forms in steps:
                f = fr.randint(0, forms - 1)
                # scalar right operands are only taken by value
                la = ('&' if f in (1, 3) else '') + ren(a)
                rb = ('&' if (f in (2, 3) and forms == 4) else '') + ren(b)
                if fr.random() < 0.25 and res == l and op in ('+', '-', '*') and not (op == '*' and r != 'S') and not (l == 'P' and r == 'P'):
                    # compound assignment spelling
                    L.append('    let mut %s%s: %s = %s; %s%s %s= %s;' % (name, suffix, ty[res], ren(a), name, suffix, op, ren(b)))
                else:
                    L.append('    let %s%s: %s = %s %s %s;' % (name, suffix, ty[res], la, op, rb))
            return L
        body = emit('x', random.Random(rng.random())) + emit('y', random.Random(rng.random()))
        last = steps[-1][0]
        checks = ['    vassert_eq("program %d: %s", %sx, %sy);' % (k, nm, nm, nm) for nm, *_ in steps[-3:]]
        out.append('fn c17_prog_%d(v0: Vector3<R>, v1: Vector3<R>, m0: Matrix3<R>, m1: Matrix3<R>, s0: R, s1: R, q0: Quaternion<R>, q1: Quaternion<R>, p0: Point3<R>) {' % k)
        out += body + checks + ['    vcover("end");', '}']
    out.append('}')
    # (VERIF_HDIR: the scratch copy of the harness crate when the driver runs against a scratch copy of /repo)
    open(os.path.join(os.environ.get('VERIF_HDIR') or os.path.join(V, 'harness'), 'src', 'c17_prog.rs'), 'w').write('\n'.join(out) + '\n')


if __name__ == '__main__':
    if len(sys.argv) >= 3 and sys.argv[1] == 'programs':
        gen_programs(int(sys.argv[2]), int(sys.argv[3]) if len(sys.argv) > 3 else 20)
    else:
        print(gen_static(), 'static harnesses')
        gen_programs(0, 20)
