#!/bin/bash
# usage: tools/try_scratch.sh <property> <patch.diff (absolute)> [extra check args]
# Like try_seeded.sh, but leaves /repo alone: applies the change in a scratch worktree of /repo under /tmp/scr and runs
# the check with VERIF_REPO pointing at it (build products and evidence under .build/*<tag>*; removed afterwards).
# Several of these can run side by side.  Dev tool, not a registered command.
set -u
PROP=$1; PATCH=$2; shift 2
ID=$(echo "$(basename "$(dirname "$PATCH")")_$(basename "$PATCH" .diff)_${PROP}_$$" | tr -c "A-Za-z0-9\n" "_")
W=/tmp/scr/$ID
mkdir -p /tmp/scr
git -C /repo worktree add -q --detach "$W" HEAD || exit 3
cleanup() { git -C /repo worktree remove --force "$W" 2>/dev/null; git -C /repo worktree prune; rm -rf /verif/.build/*"$ID"*; }
trap cleanup EXIT
git -C "$W" apply "$PATCH" || { echo "patch does not apply"; exit 3; }
cd /verif && VERIF_REPO=$W timeout 3000 ./check "$PROP" "$@" > "/tmp/scr/$ID.out" 2>&1
rc=$?
grep "^OK\|^VIOLATION\|^INCONCLUSIVE\|^KNOWN" "/tmp/scr/$ID.out" | cut -c1-230 | head -8
grep "COUNTEREXAMPLE\|does not reproduce\|MirError\|ERROR" "/tmp/scr/$ID.out" | cut -c1-260 | head -5
rm -f "/tmp/scr/$ID.out"
echo "exit=$rc"
