#!/bin/bash
# usage: tools/benign.sh <dir with MUTATION/> <patch name> <property>...
# Dev tool: confirms that a behaviour-preserving refactoring keeps the test suite green, then runs the quick checks of
# the given properties on it in scratch worktrees (tools/try_scratch.sh).  Expected: exit=0 everywhere.
W=$1; PATCH=$W/MUTATION/$2; shift 2
cd "$W" || exit 3
git checkout -q -- . ; git apply "$PATCH" || { echo "patch does not apply"; exit 3; }
echo -n "$(basename $PATCH) tests: "; cargo test --workspace --no-fail-fast --offline --features serde,mint,swizzle 2>&1 | grep "test result" | awk '{p+=$4; f+=$6} END {print p" passed, "f" failed"}'
git checkout -q -- .
for P in "$@"; do echo "--- $(basename $PATCH) under $P"; /verif/tools/try_scratch.sh "$P" "$PATCH"; done
