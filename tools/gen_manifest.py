#!/usr/bin/env python3
"""Regenerates /verif/MANIFEST.json from the table below (kept in one place so the manifest is always valid)."""
import json, os
V = os.path.dirname(os.path.dirname(os.path.abspath(__file__)))
M_NOTE = ('Trusted base: rustc 1.97.0-nightly front end + MIR inliner/optimiser, the mirsmt executor (validated on every run by bit-exact differential runs '
          'against the native build), the axiom/contract instances of mirsmt/axioms.py for opaque scalar functions, z3 4.8.12 / z3 5.1. '
          'Scalars are interpreted over the real field: IEEE rounding, overflow and NaN are outside the claim. ')
K_NOTE = 'Trusted base: Kani 0.68 MIR->goto translation, CBMC 6.11 + cadical. Bit-precise over the compiled representation; bounds are the unwind depth and the enumerated type tables. '
CHECKS = {
 'C01': dict(engine='mirsmt', section='3 C01', text='Bounded symbolic execution of the real MIR of Matrix2/3/4 (constructors, Index, Mul<Vector>, Mul<Matrix>, row/transpose/diagonal/trace, embeddings, identity/from_value/from_diagonal, from_scale/from_translation through Transform, element-wise operators) with every entry a solver variable; each result component is compared with an explicit index-sum oracle written in the harness. unsat covers all matrices and vectors over the reals at once, for all by-value/by-reference forms.',
             note=M_NOTE + 'Bounds: dimensions 2-4 (all that exist); loops are the concrete index loops of the oracle.', technique='symbolic execution of rustc MIR + SMT (QF_NRA, z3 portfolio)'),
 'C02': dict(engine='mirsmt', section='3 C02', text='Bounded symbolic execution of the real MIR (Matrix2/3/4 at the abstract scalar) with every matrix entry a solver variable: determinant = Leibniz expansion, invert() None exactly on det = 0 and otherwise a two-sided inverse, transpose laws, swap_* with symbolic indices forked over all in-range values. unsat covers every real matrix including exactly singular and nearly singular ones; a counterexample is replayed on the native build before it is reported.',
             note=M_NOTE + 'Bounds: dimension 2-4 (all that exist), executor fuel 400000 statements / 512 forks.', technique='symbolic execution of rustc MIR + SMT (QF_NRA, z3 portfolio)'),
}
def M(section, what, bounds='dimensions that exist (1-4); executor fuel 400000 statements / 512 forks per harness'):
    return dict(engine='mirsmt', section=section, text='Bounded symbolic execution of the real MIR of /repo (generic code monomorphised at an abstract scalar, all inputs solver variables), one SMT query per (path, assertion, component); ' + what + ' unsat = holds for every real input on that path; a sat model is replayed on the native build (dev and release) before it is reported.',
                note=M_NOTE + 'Bounds: ' + bounds + '.', technique='symbolic execution of rustc MIR + SMT (QF_NRA, z3 portfolio)')
CHECKS.update({
 'C03': M('3 C03', 'every vector operator, ElementWise method, dot/sum/product, cross (antisymmetry, orthogonality, Lagrange, triple product) and perp_dot for Vector1-4 at the abstract real scalar, and the same harnesses at i32/i64 with inputs bounded so that no intermediate overflows (mathematical integers; division and remainder compared operation for operation).',
          'dimensions 1-4; integer inputs |x| <= 1000 (30 for cubic identities); fuel/forks as above'),
 'C04': M('3 C04', 'Hamilton product against a written-out oracle, associativity, distributivity, conjugate anti-automorphism, norm multiplicativity, q*invert(q)=1 for q != 0, q*v = v + 2 qv x (qv x v + s v) for every q, and for |q|^2 = 1 (a constraint, not a sample) equality with the sandwich product, length preservation and (pq)v = p(qv); Sum/Product folds.'),
 'C05': M('3 C05', 'for every unit quaternion (constraint |q|^2 = 1) the Matrix3/Matrix4/Basis3 conversions equal the textbook matrix, rotate vectors identically, are orthonormal with det +1, respect composition, and Quaternion::from(Matrix3::from(q)) is q or -q on each of the four branches (each branch also proved reachable).'),
 'C06': M('3 C06', 'for a symbolic angle (both Rad and Deg), a unit axis (constraint |a|^2 = 1) and any vector: from_axis_angle as Matrix3, Matrix4, Basis3 and Quaternion maps v to Rodrigues\' formula component by component (the oracle uses the same opaque sin/cos symbols; the quaternion needs the double-angle axiom instances), fixes the axis, is orthonormal with det +1; from_angle_x/y/z equal from_axis_angle about the unit axes in all four representations; Matrix2/Basis2::from_angle images of e1, e2; angles add under composition (angle-addition instances); r*invert(r) = one() and rotate_point = rotate_vector(p - origin) for Quaternion, Basis3, Basis2.'),
 'C07': M('3 C07', 'Matrix3/Matrix4/Basis3 from Euler{x,y,z} equal Rx(x) Ry(y) Rz(z) and Quaternion::from(Euler) equals qx qy qz and has the same matrix (Rad and Deg); Euler::from(unit q): branch structure at 0.499, gimbal branches report x = 0, y = +-pi/2, regular branch angles lie in the documented ranges, and for |sin y| <= 0.998 the extracted angles rebuild q\'s rotation exactly (all nine entries of Matrix3::from(Euler::from(q)) = Matrix3::from(q)), closed by a solver-checked proof script (radius lemmas, scalar lemma functions, cleared-denominator identities modulo |q| = 1). The 0.13 bound inside the gimbal cone is outside the claim.'),
 'C08': M('3 C08', 'for all five Transform implementations (Decomposed with Quaternion, Basis3, Basis2 rotations; Matrix3 as 2-D and 3-D; Matrix4) with symbolic scale, unit rotation (constraint), displacement, point and vector: concat / * / concat_self equal sequential application, one() is neutral, transform_vector ignores displacement, inverse_transform is None for scale 0 / det 0 and for |scale| > 1e-6 (ulps_eq contract) / det != 0 undoes the transform both ways with inverse_transform_vector agreeing, and conversion to Matrix3/Matrix4 commutes with apply, compose and invert. Matrix4 vector laws are stated for affine matrices (transform_vector drops the homogeneous coordinate), point laws where the homogeneous w is non-zero.'),
 'C10': M('3 C10', 'ortho maps the 8 box corners to the cube corners; frustum maps near and similar far rectangle corners to the z = -1/+1 faces after the divide by w = -z; perspective equals frustum(to_perspective()) and its entries on the whole valid domain; planar maps the z = 0 window to [-1,1]^2, z=-n to -1, z=-f to +1, focal point at (h/2)cot(fovy/2); and for each documented precondition of perspective/frustum/planar, with that precondition violated NO path returns (all end in the panic), while valid parameters have no feasible panic path. tan is opaque with 0<t<pi/2 => tan t > 0, pi symbolic.'),
 'C09': M('3 C09', 'every 3-D look_to/look_at entry point (Matrix4 rh/lh, deprecated aliases, Matrix3, Transform impls, Basis3, Quaternion, Decomposed with Basis3 and Quaternion) for symbolic eye, direction and up in general position (d != 0, d x up != 0): rotation block orthonormal with det +1, eye to origin, d to -z (rh) / +z (lh), up into x = 0, y >= 0, look_at = look_to of center - eye, and agreement between representations; the doubly normalised up row is handled by solver-checked lemmas on the code\'s own terms; 2-D Matrix2/Basis2::look_at both flip branches.'),
 'C13': M('3 C13', 'four interpretations of the real code of Rad/Deg. REAL with pi symbolic: unit conversions are mutually inverse, full turns correspond, turn_div_k()*k = full_turn(), trig of an angle is the function of its radian measure, csc/sec/cot reciprocals, inverse functions return the principal value in the caller\'s unit with the documented ranges, operators and Sum act on the underlying number. REAL with the fmod contract (integer turn count): normalize in [0,T), normalize_signed in (-T/2,T/2], each a whole number of turns from the argument, opposite = normalize(a + T/2), bisect midway (equal and opposite signed distance, at most a quarter turn) -- BOUND: angles within 64 turns (8 for bisect) of zero. FP (bit-precise IEEE, z3/cvc5 QF_FP): normalize in [0,T] and normalize_signed in [-T/2,T/2] for EVERY finite f32 and f64 in both units. ERR (rounding-error model, each operation (1+delta), |delta| <= unit roundoff): unit round trips within 4 machine epsilons for f32 and f64 in the normal range 2^-100..2^100 / 2^-900..2^900. One defect (bisect) was repaired by a fix: commit.', 'angle magnitude for the modular clauses (64 turns; 8 for bisect); normal floating-point range for the 4-epsilon clause; executor fuel/forks'),
 'C17': M('3 C17', 'for every operator on Vector1-4, Point1-3, Matrix2-4, Quaternion, Rad, Deg, Basis2/3 the by-value, &a op b, a op &b, &a op &b and compound-assignment forms produce leaf-wise identical terms (a missing form is a compile error); for each of the twelve primitive scalar types, scalar*value, scalar/value, scalar%value on Vector1-4 and Point1-3 (and Matrix2-4, Quaternion at f32/f64), by value and by reference, equal the primitive operation applied to each component with the scalar on the left, monomorphised at the real primitive type (integer division and remainder as uninterpreted operations: equal terms mean the same operation on the same operands in the same order); Sum/Product over arrays of length 0-4 of values and of references equal the left fold from zero()/one(); and VERIF_SEED-seeded random straight-line programs (20 quick / 200 thorough, 6-12 operations) written twice with independently chosen spellings agree. Sampling over programs, exhaustive over values.', 'iterator folds over 0-4 elements; programs of 6-12 operations, 20 (quick) / 200 (thorough) per seed'),
 'C18': M('3 C18', 'for every compound type (Vector1-4, Point1-3, Matrix2-4, Quaternion, Rad, Deg, Euler, Basis2/3, Decomposed x 3 rotation types) and symbolic tolerances, abs_diff_eq / relative_eq / ulps_eq equal the conjunction of the scalar relation over all corresponding components: the scalar relations are opaque Boolean atoms, so the && chains are explored path by path (one path per prefix) and a dropped, repeated or misdirected clause changes some path\'s verdict; reflexivity and symmetry under the scalar contract; is_finite, is_zero (exact for vectors, ulps for matrices with the matrix types\' own default epsilon 1e-6, quaternions, angles), is_identity, is_diagonal, is_symmetric, is_invertible, is_perpendicular equal the stated component-wise ulps comparisons.'),
 'C14': M('3 C14', 'lerp = a + (b-a)t with exact endpoints for Vector1-4, Quaternion, Matrix2-4; nlerp for unit a, b and 0<=t<=1 on both sign paths: unit result, a non-negative combination of a and +-b (in their plane, on the shorter arc), no further from either end than the ends are from each other, exact endpoints; slerp: sign flip, hand-over to nlerp above 0.9995, unit result, exact endpoints, and constant angular speed r.a = cos(t*theta) on the acos path, closed by a solver-checked proof script (bilinearity lemmas on the code\'s own terms + scalar lemma functions proved for all reals + the angle-subtraction axiom instance). The 1e-5 rad clause on the nlerp hand-over path is outside the claim.'),
 'C15': M('3 C15', 'Quaternion::between_vectors for unit a, b on its three paths (general: q*a = b, unit, 2 q.s^2 - 1 = a.b, axis parallel to and along a x b; same: identity and only within 1e-7 rad; opposite: half turn about a unit axis perpendicular to a, both axis sub-paths, only within 1e-7 rad of antiparallel), Basis3 = matrix of that quaternion, Basis2::between_vectors (cos = a.b, sin = perp_dot, r(a) = b), and Quaternion::from_arc for non-zero src, dst of any length (general path unit, image parallel to dst with (q*src).dst = |src||dst| > 0, q.s >= 0; parallel path identity; antiparallel path with and without fallback axis; 1e-4 rad tolerance for lengths in [1e-3, 1e3]) under the ulps_eq contract. One known finding (tiny src, no fallback: NaN) is listed in known-findings.txt; one defect (Basis2 sign) was repaired by a fix: commit.'),
 'C11': M('3 C11', 'magnitude/distance/normalize/normalize_to/project_on for Vector1-4, Point1-3 and Quaternion with sqrt as an axiomatised opaque function, and angle(): |u||v|cos = u.v, range and symmetry for the acos form (dimension 1, 4, quaternion; Cauchy-Schwarz via a solver-checked Lagrange-identity lemma) and the atan2 forms (2-D signed, 3-D), using scalar lemma functions that are themselves harnesses.'),
 'C12': M('3 C12', 'the affine-space laws, to_vec/from_vec/origin, scalar and ElementWise operators, dot, midpoint, centroid of 1-4 points (the slice iterator runs in the executor) and homogeneous coordinates for Point1-3 at the abstract real scalar, and the laws at i32 with bounded inputs.', 'dimensions 1-3; centroid over 1-4 points; integer inputs |x| <= 1000'),
})
NOT_APPLICABLE = []
ALL = ['C%02d' % i for i in range(1, 21)]
def main():
    checks = []
    for pid in sorted(CHECKS):
        c = CHECKS[pid]
        checks.append({
            'property_id': pid,
            'quick_cmd': './check %s --tier quick' % pid,
            'thorough_cmd': './check %s --tier thorough' % pid,
            'evidence_file': 'evidence/%s.json' % pid,
            'replay_cmd_template': './check %s --replay {path}' % pid,
            'engine': c['engine'],
            'level_claimed': {'category': 'model_checking', 'text': c['text'], 'design_ref': 'DESIGN.md section ' + c['section']},
            'level_note': c['note'],
            'technique': c['technique'],
        })
    na = list(NOT_APPLICABLE)
    for pid in ALL:
        if pid not in CHECKS and not any(x['property_id'] == pid for x in na):
            na.append({'property_id': pid, 'reason': 'check not yet built in this round (planned, see DESIGN.md section 3); not a statement about applicability of the technique'})
    m = {
        'version': 1,
        'setup_cmd': './setup.sh',
        'hooks': {'guard': 'cgmath_verif', 'enable': 'none needed: every check reaches the code through the public API of /repo (path dependency); the guard name is reserved and no source commit uses it',
                  'baseline_off_cmd': 'cd /repo && cargo test --workspace --no-fail-fast --offline', 'source_commits': [], 'add_only': True},
        'engines': [
            {'name': 'mirsmt', 'path': 'mirsmt/', 'serves_properties': [p for p in sorted(CHECKS) if CHECKS[p]['engine'] == 'mirsmt'],
             'kind_free_text': 'symbolic executor for nightly rustc MIR of the harness crate (harness/), SMT-LIB2 queries to z3 4.8.12 / z3 5.1 / cvc5, native replay'},
            {'name': 'kani', 'path': 'kani-harness/', 'serves_properties': [p for p in sorted(CHECKS) if CHECKS[p]['engine'] == 'kani'],
             'kind_free_text': 'Kani 0.68 / CBMC 6.11 proof harnesses over kani::any() components, generated tables'},
        ],
        'checks': checks,
        'not_applicable': na,
        'notes': 'Exit codes: 0 held, 1 + VIOLATION line (replayed natively), 2 inconclusive (solver limit / non-reproducing model / build failure). Known findings: known-findings.txt.',
    }
    json.dump(m, open(os.path.join(V, 'MANIFEST.json'), 'w'), indent=1)
    try:
        import jsonschema
        jsonschema.validate(m, json.load(open('/root/.vp/MANIFEST.schema.json')))
        print('MANIFEST.json valid,', len(checks), 'checks')
    except ImportError:
        print('MANIFEST.json written (jsonschema not available)')
if __name__ == '__main__':
    main()
