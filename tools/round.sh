#!/bin/bash
# usage: tools/round.sh <round dir, e.g. /tmp/r8> <property>
# Dev tool (not a registered command): for each change a sub-agent left in <round dir>/<property>/MUTATION, confirm it
# in the scratch worktree (tests pass, demo fails with / passes without) and run the property's quick check on it
# (tools/try_scratch.sh, scratch worktree, /repo untouched).  Output: <round dir>/log/<property>.log
set -u
RD=$1; P=$2; W=$RD/$P; M=$W/MUTATION
exec > "$RD/log/$P.log" 2>&1
n=$(python3 -c "import json;print(len(json.load(open('$M/meta.json'))['changes']))")
for i in $(seq 1 "$n"); do
  patch=$M/$(python3 -c "import json;print(json.load(open('$M/meta.json'))['changes'][$i-1]['patch'])")
  demo=$M/$(python3 -c "import json;print(json.load(open('$M/meta.json'))['changes'][$i-1]['demo'])")
  feat=$(python3 -c "import json;print(json.load(open('$M/meta.json'))['changes'][$i-1].get('features') or '')")
  echo "=== $P change $i  features=[$feat]"
  FEATURES="$feat" /verif/tools/confirm_seeded.sh "$W" "$patch" "$demo"
  echo "--- check $P"
  /verif/tools/try_scratch.sh "$P" "$patch"
done
rm -rf "$W/target"
echo DONE
