#!/usr/bin/env python3
"""usage: keep_seeded.py <prop> <worktree> <idx> <detected: yes|no|after-strengthening> <by: harness/assert or note>
Copies a confirmed seeded change into /verif/seeded/<prop>-<idx>/ with meta.json."""
import json, os, shutil, sys
prop, wt, idx, det, by = sys.argv[1:6]
didx = sys.argv[6] if len(sys.argv) > 6 else idx   # destination index (later rounds)
src = os.path.join(wt, 'MUTATION')
meta = json.load(open(os.path.join(src, 'meta.json')))
ch = meta['changes'][int(idx) - 1]
dst = os.path.join('/verif/seeded', '%s-%s' % (prop, didx))
os.makedirs(dst, exist_ok=True)
shutil.copy(os.path.join(src, ch['patch']), os.path.join(dst, 'patch.diff'))
shutil.copy(os.path.join(src, ch['demo']), os.path.join(dst, 'demo.rs'))
json.dump({
    'property': prop, 'what': ch.get('what'), 'needs_to_manifest': ch.get('needs'),
    'origin': 'independent sub-agent given only the property text and a scratch worktree',
    'confirmed_by_me': {'how': 'tools/confirm_seeded.sh in the scratch worktree: patch applies; cargo test --workspace --no-fail-fast --offline passes with the change; demo (copied to tests/) fails with the change and passes without',
                        'existing_tests_pass': True, 'demo_fails_with_change': True, 'demo_passes_without': True},
    'check': {'command': 'tools/try_seeded.sh %s seeded/%s-%s/patch.diff  (git -C /repo apply; ./check %s; git -C /repo checkout -- .)' % (prop, prop, didx, prop),
              'detected': det, 'by': by},
}, open(os.path.join(dst, 'meta.json'), 'w'), indent=1)
print('kept', dst)
