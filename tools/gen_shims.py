#!/usr/bin/env python3
"""Generates harness/src/shims.rs.  rustc's MIR inliner stops at nesting depth 5, so a deep generic call
chain can leave one cgmath call un-inlined, and -Zunpretty=mir only prints bodies of the harness crate.
Each shim is a local non-generic wrapper around exactly that cgmath function: its printed body IS cgmath's
code (inlined one level).  The executor maps an un-inlined callee to `shim_<sanitised callee path>`."""
import re, os
V = os.path.dirname(os.path.dirname(os.path.abspath(__file__)))
def san(s): return re.sub(r'[^A-Za-z0-9]+', '_', s).strip('_')
E = []   # (callee as printed in MIR, params, return type, body)
def add(callee, params, ret, body): E.append((callee, params, ret, body))
VECS = [('Vector1', 1), ('Vector2', 2), ('Vector3', 3), ('Vector4', 4)]
for V_, n in VECS:
    T = 'cgmath::%s<R>' % V_
    add('<%s as std::ops::Add>::add' % T, 'a: %s<R>, b: %s<R>' % (V_, V_), '%s<R>' % V_, 'a + b')
    add('<%s as std::ops::Sub>::sub' % T, 'a: %s<R>, b: %s<R>' % (V_, V_), '%s<R>' % V_, 'a - b')
    add('<%s as std::ops::Mul<R>>::mul' % T, 'a: %s<R>, b: R' % V_, '%s<R>' % V_, 'a * b')
    add('<%s as std::ops::Div<R>>::div' % T, 'a: %s<R>, b: R' % V_, '%s<R>' % V_, 'a / b')
    add('<%s as std::ops::Neg>::neg' % T, 'a: %s<R>' % V_, '%s<R>' % V_, '-a')
    add('<%s as cgmath::InnerSpace>::dot' % T, 'a: %s<R>, b: %s<R>' % (V_, V_), 'R', 'a.dot(b)')
    add('<%s as cgmath::InnerSpace>::normalize' % T, 'a: %s<R>' % V_, '%s<R>' % V_, 'a.normalize()')
    add('<%s as cgmath::InnerSpace>::magnitude' % T, 'a: %s<R>' % V_, 'R', 'a.magnitude()')
    add('<%s as cgmath::InnerSpace>::magnitude2' % T, 'a: %s<R>' % V_, 'R', 'a.magnitude2()')
for P_, V_ in [('Point1', 'Vector1'), ('Point2', 'Vector2'), ('Point3', 'Vector3')]:
    T = 'cgmath::%s<R>' % P_
    add('<%s as std::ops::Add<cgmath::%s<R>>>::add' % (T, V_), 'a: %s<R>, b: %s<R>' % (P_, V_), '%s<R>' % P_, 'a + b')
    add('<%s as std::ops::Sub<cgmath::%s<R>>>::sub' % (T, V_), 'a: %s<R>, b: %s<R>' % (P_, V_), '%s<R>' % P_, 'a - b')
    add('<%s as std::ops::Sub>::sub' % T, 'a: %s<R>, b: %s<R>' % (P_, P_), '%s<R>' % V_, 'a - b')
    add('<%s as std::ops::Mul<R>>::mul' % T, 'a: %s<R>, b: R' % P_, '%s<R>' % P_, 'a * b')
Q = 'cgmath::Quaternion<R>'
add('<%s as cgmath::Rotation>::rotate_vector' % Q, 'q: &Quaternion<R>, v: Vector3<R>', 'Vector3<R>', 'q.rotate_vector(v)')
add('<%s as cgmath::Rotation>::rotate_point' % Q, 'q: &Quaternion<R>, v: Point3<R>', 'Point3<R>', 'q.rotate_point(v)')
add('<%s as cgmath::Rotation>::invert' % Q, 'q: &Quaternion<R>', 'Quaternion<R>', 'Rotation::invert(q)')
add('<%s as std::ops::Mul<cgmath::Vector3<R>>>::mul' % Q, 'q: Quaternion<R>, v: Vector3<R>', 'Vector3<R>', 'q * v')
add('<%s as std::ops::Mul>::mul' % Q, 'p: Quaternion<R>, q: Quaternion<R>', 'Quaternion<R>', 'p * q')
add('<%s as std::ops::Mul<R>>::mul' % Q, 'p: Quaternion<R>, q: R', 'Quaternion<R>', 'p * q')
add('<%s as std::ops::Add>::add' % Q, 'p: Quaternion<R>, q: Quaternion<R>', 'Quaternion<R>', 'p + q')
add('<%s as std::ops::Sub>::sub' % Q, 'p: Quaternion<R>, q: Quaternion<R>', 'Quaternion<R>', 'p - q')
add('<%s as std::ops::Neg>::neg' % Q, 'p: Quaternion<R>', 'Quaternion<R>', '-p')
add('<%s as cgmath::InnerSpace>::normalize' % Q, 'p: Quaternion<R>', 'Quaternion<R>', 'p.normalize()')
add('<%s as cgmath::InnerSpace>::dot' % Q, 'p: Quaternion<R>, q: Quaternion<R>', 'R', 'p.dot(q)')
add('<%s as cgmath::InnerSpace>::magnitude' % Q, 'p: Quaternion<R>', 'R', 'p.magnitude()')
add('<%s as cgmath::InnerSpace>::magnitude2' % Q, 'p: Quaternion<R>', 'R', 'p.magnitude2()')
for B, V_, P_, M_ in [('Basis3', 'Vector3', 'Point3', 'Matrix3'), ('Basis2', 'Vector2', 'Point2', 'Matrix2')]:
    T = 'cgmath::%s<R>' % B
    add('<%s as cgmath::Rotation>::rotate_vector' % T, 'b: &%s<R>, v: %s<R>' % (B, V_), '%s<R>' % V_, 'b.rotate_vector(v)')
    add('<%s as cgmath::Rotation>::rotate_point' % T, 'b: &%s<R>, v: %s<R>' % (B, P_), '%s<R>' % P_, 'b.rotate_point(v)')
    add('<%s as cgmath::Rotation>::invert' % T, 'b: &%s<R>' % B, '%s<R>' % B, 'Rotation::invert(b)')
    add('<%s as std::ops::Mul>::mul' % T, 'a: %s<R>, b: %s<R>' % (B, B), '%s<R>' % B, 'a * b')
    add('<cgmath::%s<R> as From<%s>>::from' % (M_, T), 'b: %s<R>' % B, '%s<R>' % M_, 'b.into()')
for M_, V_, n in [('Matrix2', 'Vector2', 2), ('Matrix3', 'Vector3', 3), ('Matrix4', 'Vector4', 4)]:
    T = 'cgmath::%s<R>' % M_
    add('<%s as std::ops::Mul>::mul' % T, 'a: %s<R>, b: %s<R>' % (M_, M_), '%s<R>' % M_, 'a * b')
    add('<%s as std::ops::Mul<cgmath::%s<R>>>::mul' % (T, V_), 'a: %s<R>, b: %s<R>' % (M_, V_), '%s<R>' % V_, 'a * b')
    add('<%s as std::ops::Mul<R>>::mul' % T, 'a: %s<R>, b: R' % M_, '%s<R>' % M_, 'a * b')
    add('<%s as cgmath::SquareMatrix>::invert' % T, 'a: &%s<R>' % M_, 'Option<%s<R>>' % M_, 'a.invert()')
    add('<%s as cgmath::SquareMatrix>::determinant' % T, 'a: &%s<R>' % M_, 'R', 'a.determinant()')
    add('<%s as cgmath::Matrix>::transpose' % T, 'a: &%s<R>' % M_, '%s<R>' % M_, 'a.transpose()')
add('<cgmath::Matrix3<R> as From<%s>>::from' % Q, 'q: Quaternion<R>', 'Matrix3<R>', 'q.into()')
add('<cgmath::Matrix4<R> as From<%s>>::from' % Q, 'q: Quaternion<R>', 'Matrix4<R>', 'q.into()')
add('<%s as From<cgmath::Matrix3<R>>>::from' % Q, 'm: Matrix3<R>', 'Quaternion<R>', 'm.into()')
add('<%s as From<cgmath::Basis3<R>>>::from' % Q, 'm: Basis3<R>', 'Quaternion<R>', 'm.into()')
add('<cgmath::Basis3<R> as From<%s>>::from' % Q, 'q: Quaternion<R>', 'Basis3<R>', 'q.into()')
add('<cgmath::Matrix3<R> as From<cgmath::Matrix2<R>>>::from', 'm: Matrix2<R>', 'Matrix3<R>', 'm.into()')
add('<cgmath::Matrix4<R> as From<cgmath::Matrix3<R>>>::from', 'm: Matrix3<R>', 'Matrix4<R>', 'm.into()')
add('<cgmath::Matrix4<R> as From<cgmath::Matrix2<R>>>::from', 'm: Matrix2<R>', 'Matrix4<R>', 'm.into()')
for A in ('Rad', 'Deg'):
    add('<cgmath::Matrix3<R> as From<cgmath::Euler<cgmath::%s<R>>>>::from' % A, 'e: Euler<%s<R>>' % A, 'Matrix3<R>', 'e.into()')
    add('<cgmath::Matrix4<R> as From<cgmath::Euler<cgmath::%s<R>>>>::from' % A, 'e: Euler<%s<R>>' % A, 'Matrix4<R>', 'e.into()')
    add('<%s as From<cgmath::Euler<cgmath::%s<R>>>>::from' % (Q, A), 'e: Euler<%s<R>>' % A, 'Quaternion<R>', 'e.into()')
    add('<cgmath::Basis3<R> as From<cgmath::Euler<cgmath::%s<R>>>>::from' % A, 'e: Euler<%s<R>>' % A, 'Basis3<R>', 'e.into()')
add('<cgmath::Rad<R> as From<cgmath::Deg<R>>>::from', 'd: Deg<R>', 'Rad<R>', 'd.into()')
add('<cgmath::Deg<R> as From<cgmath::Rad<R>>>::from', 'd: Rad<R>', 'Deg<R>', 'd.into()')
for A in ('Rad', 'Deg'):
    T = 'cgmath::%s<R>' % A
    add('<%s as cgmath::Angle>::sin' % T, 'a: %s<R>' % A, 'R', 'Angle::sin(a)')
    add('<%s as cgmath::Angle>::cos' % T, 'a: %s<R>' % A, 'R', 'Angle::cos(a)')
    add('<%s as cgmath::Angle>::tan' % T, 'a: %s<R>' % A, 'R', 'Angle::tan(a)')
    add('<%s as cgmath::Angle>::sin_cos' % T, 'a: %s<R>' % A, '(R, R)', 'Angle::sin_cos(a)')
    add('<%s as cgmath::Angle>::normalize' % T, 'a: %s<R>' % A, '%s<R>' % A, 'a.normalize()')
    add('<%s as cgmath::Angle>::normalize_signed' % T, 'a: %s<R>' % A, '%s<R>' % A, 'a.normalize_signed()')
    add('<%s as cgmath::Angle>::full_turn' % T, '', '%s<R>' % A, '<%s<R> as Angle>::full_turn()' % A)
    add('<%s as cgmath::Angle>::turn_div_2' % T, '', '%s<R>' % A, '<%s<R> as Angle>::turn_div_2()' % A)
    add('<%s as cgmath::Angle>::turn_div_4' % T, '', '%s<R>' % A, '<%s<R> as Angle>::turn_div_4()' % A)
    add('<%s as cgmath::Angle>::atan2' % T, 'a: R, b: R', '%s<R>' % A, '<%s<R> as Angle>::atan2(a, b)' % A)
    add('<%s as cgmath::Angle>::asin' % T, 'a: R', '%s<R>' % A, '<%s<R> as Angle>::asin(a)' % A)
    add('<%s as cgmath::Angle>::acos' % T, 'a: R', '%s<R>' % A, '<%s<R> as Angle>::acos(a)' % A)
for A in ('Rad', 'Deg'):
    T = 'cgmath::%s<R>' % A
    add('<%s as std::ops::Add>::add' % T, 'a: %s<R>, b: %s<R>' % (A, A), '%s<R>' % A, 'a + b')
    add('<%s as std::ops::Sub>::sub' % T, 'a: %s<R>, b: %s<R>' % (A, A), '%s<R>' % A, 'a - b')
    add('<%s as std::ops::Rem>::rem' % T, 'a: %s<R>, b: %s<R>' % (A, A), '%s<R>' % A, 'a % b')
    add('<%s as std::ops::Div>::div' % T, 'a: %s<R>, b: %s<R>' % (A, A), 'R', 'a / b')
    add('<%s as std::ops::Mul<R>>::mul' % T, 'a: %s<R>, b: R' % A, '%s<R>' % A, 'a * b')
    add('<%s as std::ops::Div<R>>::div' % T, 'a: %s<R>, b: R' % A, '%s<R>' % A, 'a / b')
    add('<%s as std::ops::Neg>::neg' % T, 'a: %s<R>' % A, '%s<R>' % A, '-a')
    for f, op in (('lt', '<'), ('le', '<='), ('gt', '>'), ('ge', '>=')):
        add('<%s as PartialOrd>::%s' % (T, f), 'a: &%s<R>, b: &%s<R>' % (A, A), 'bool', 'a %s b' % op)
    add('<%s as PartialOrd>::partial_cmp' % T, 'a: &%s<R>, b: &%s<R>' % (A, A), 'Option<std::cmp::Ordering>', 'a.partial_cmp(b)')
    add('<%s as cgmath::Angle>::opposite' % T, 'a: %s<R>' % A, '%s<R>' % A, 'a.opposite()')
    add('<%s as cgmath::Angle>::bisect' % T, 'a: %s<R>, b: %s<R>' % (A, A), '%s<R>' % A, 'a.bisect(b)')
    add('<%s as cgmath::Zero>::zero' % T, '', '%s<R>' % A, '<%s<R> as Zero>::zero()' % A)
for S in ('f32', 'f64'):
    for A in ('Rad', 'Deg'):
        T = 'cgmath::%s<%s>' % (A, S)
        AS = '%s<%s>' % (A, S)
        for f in ('full_turn', 'turn_div_2', 'turn_div_4'):
            add('<%s as cgmath::Angle>::%s' % (T, f), '', AS, '<%s as Angle>::%s()' % (AS, f))
        add('<%s as cgmath::Angle>::normalize' % T, 'a: %s' % AS, AS, 'a.normalize()')
        add('<%s as cgmath::Angle>::normalize_signed' % T, 'a: %s' % AS, AS, 'a.normalize_signed()')
        add('<%s as cgmath::Zero>::zero' % T, '', AS, '<%s as Zero>::zero()' % AS)
        add('<%s as std::ops::Add>::add' % T, 'a: %s, b: %s' % (AS, AS), AS, 'a + b')
        add('<%s as std::ops::Sub>::sub' % T, 'a: %s, b: %s' % (AS, AS), AS, 'a - b')
        add('<%s as std::ops::Rem>::rem' % T, 'a: %s, b: %s' % (AS, AS), AS, 'a % b')
        add('<%s as std::ops::Div<%s>>::div' % (T, S), 'a: %s, b: %s' % (AS, S), AS, 'a / b')
        add('<%s as std::ops::Mul<%s>>::mul' % (T, S), 'a: %s, b: %s' % (AS, S), AS, 'a * b')
        add('<%s as std::ops::Neg>::neg' % T, 'a: %s' % AS, AS, '-a')
        add('<%s as cgmath::Angle>::opposite' % T, 'a: %s' % AS, AS, 'a.opposite()')
        add('<%s as cgmath::Angle>::bisect' % T, 'a: %s, b: %s' % (AS, AS), AS, 'a.bisect(b)')
        for f, op in (('lt', '<'), ('le', '<='), ('gt', '>'), ('ge', '>=')):
            add('<%s as PartialOrd>::%s' % (T, f), 'a: &%s, b: &%s' % (AS, AS), 'bool', 'a %s b' % op)
        add('<%s as PartialOrd>::partial_cmp' % T, 'a: &%s, b: &%s' % (AS, AS), 'Option<std::cmp::Ordering>', 'a.partial_cmp(b)')
for P_ in ('Point1', 'Point2', 'Point3'):
    # (a recursive implementation cannot be inlined at all; the shim's body then calls itself through the same mapping)
    add('<cgmath::%s<R> as cgmath::EuclideanSpace>::centroid' % P_, 'p: &[%s<R>]' % P_, '%s<R>' % P_, '<%s<R> as EuclideanSpace>::centroid(p)' % P_)
    add('<cgmath::%s<R> as cgmath::EuclideanSpace>::midpoint' % P_, 'p: %s<R>, q: %s<R>' % (P_, P_), '%s<R>' % P_, 'p.midpoint(q)')
# Transform methods (trait defaults that call each other, e.g. inverse_transform_vector via transform_point)
DEC = [('cgmath::Decomposed<cgmath::Vector3<R>, cgmath::Quaternion<R>>', 'Decomposed<Vector3<R>, Quaternion<R>>', 'Point3', 'Vector3'),
       ('cgmath::Decomposed<cgmath::Vector3<R>, cgmath::Basis3<R>>', 'Decomposed<Vector3<R>, Basis3<R>>', 'Point3', 'Vector3'),
       ('cgmath::Decomposed<cgmath::Vector2<R>, cgmath::Basis2<R>>', 'Decomposed<Vector2<R>, Basis2<R>>', 'Point2', 'Vector2'),
       ('cgmath::Matrix3<R>', 'Matrix3<R>', 'Point2', 'Vector2'), ('cgmath::Matrix3<R>', 'Matrix3<R>', 'Point3', 'Vector3'),
       ('cgmath::Matrix4<R>', 'Matrix4<R>', 'Point3', 'Vector3')]
for T, TS, P_, V_ in DEC:
    tr = 'cgmath::Transform<cgmath::%s<R>>' % P_
    ts = 'Transform<%s<R>>' % P_
    add('<%s as %s>::transform_point' % (T, tr), 't: &%s, p: %s<R>' % (TS, P_), '%s<R>' % P_, '<%s as %s>::transform_point(t, p)' % (TS, ts))
    add('<%s as %s>::transform_vector' % (T, tr), 't: &%s, v: %s<R>' % (TS, V_), '%s<R>' % V_, '<%s as %s>::transform_vector(t, v)' % (TS, ts))
    add('<%s as %s>::inverse_transform' % (T, tr), 't: &%s' % TS, 'Option<%s>' % TS, '<%s as %s>::inverse_transform(t)' % (TS, ts))
    add('<%s as %s>::inverse_transform_vector' % (T, tr), 't: &%s, v: %s<R>' % (TS, V_), 'Option<%s<R>>' % V_, '<%s as %s>::inverse_transform_vector(t, v)' % (TS, ts))
    add('<%s as %s>::concat' % (T, tr), 't: &%s, u: &%s' % (TS, TS), TS, '<%s as %s>::concat(t, u)' % (TS, ts))
out = ['//! GENERATED by tools/gen_shims.py -- do not edit.  See that file for the rationale.', '#![allow(non_snake_case)]', 'use crate::*;', 'use cgmath::*;', '']
seen = set()
for callee, params, ret, body in E:
    nm = 'shim_' + san(callee)
    if nm in seen: continue
    seen.add(nm)
    out.append('/// `%s`' % callee)
    out.append('#[inline(never)] pub fn %s(%s) -> %s { %s }' % (nm, params, ret, body))
open(os.path.join(V, 'harness', 'src', 'shims.rs'), 'w').write('\n'.join(out) + '\n')
print(len(seen), 'shims')
