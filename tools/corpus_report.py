#!/usr/bin/env python3
"""Summarises a regression run of the seeded corpus (logs of tools/try_scratch.sh <own property> seeded/<id>/patch.diff,
one per change, in the directory given as argument) into seeded/REGRESSION.md."""
import glob, json, os, re, sys
V = os.path.dirname(os.path.dirname(os.path.abspath(__file__)))
logdir = sys.argv[1]
rows = []
def key(d):
    b = os.path.basename(d).split('-'); return (b[0], int(b[1]))
for d in sorted(glob.glob(os.path.join(V, 'seeded', 'C*-*')), key=key):
    name = os.path.basename(d)
    m = json.load(open(os.path.join(d, 'meta.json')))
    lf = os.path.join(logdir, name + '.log')
    ex, first = '?', ''
    if os.path.exists(lf):
        t = open(lf).read()
        mm = re.search(r'exit=(\d+)', t)
        ex = mm.group(1) if mm else '?'
        v = re.search(r'^VIOLATION.*$', t, re.M)
        first = (v.group(0) if v else (re.search(r'^(OK|INCONCLUSIVE).*$', t, re.M) or [''])[0] if re.search(r'^(OK|INCONCLUSIVE).*$', t, re.M) else '')
        first = re.sub(r'replay=\S+', '', first)[:110]
    rows.append((name, m['check']['detected'], ex, first))
out = ['# Regression run of the seeded corpus', '',
       'Each change applied in a scratch worktree and the quick check of **its own property** run on it',
       '(`tools/try_scratch.sh <property> seeded/<id>/patch.diff`), with the machinery as committed. Exit 1 = VIOLATION',
       'reported, 0 = nothing reported by that check, 2 = inconclusive. A change recorded as caught by another',
       "property's check (see the `by` column of DESIGN 10.5) legitimately shows 0 here.", '',
       '| id | recorded | exit of own check | first verdict line |', '|---|---|---|---|']
for r in rows:
    out.append('| %s | %s | %s | %s |' % r)
n1 = sum(1 for r in rows if r[2] == '1'); n0 = sum(1 for r in rows if r[2] == '0'); n2 = sum(1 for r in rows if r[2] == '2')
out += ['', '%d changes: own check exit 1 for %d, exit 0 for %d, exit 2 for %d.' % (len(rows), n1, n0, n2)]
open(os.path.join(V, 'seeded', 'REGRESSION.md'), 'w').write('\n'.join(out) + '\n')
print(out[-1])
